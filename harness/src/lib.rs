//! a5mon: runtime monitors for the 20 properties of a5-rs (see /verif/DESIGN.md).
pub mod calls;
pub mod gen;
pub mod geom;
pub mod loci;
pub mod model;
pub mod mon;
pub mod orc;
pub mod report;
pub mod rng;

use std::path::PathBuf;

#[derive(Clone, Copy, PartialEq, Eq, Debug)]
pub enum Tier {
    Quick,
    Thorough,
}

pub struct Ctx {
    pub tier: Tier,
    pub seed: u64,
    pub threads: usize,
    /// /verif
    pub root: PathBuf,
}

impl Ctx {
    /// workload size per tier, scaled by VERIF_BUDGET (float, default 1)
    pub fn n(&self, quick: u64, thorough: u64) -> u64 {
        let base = if self.tier == Tier::Quick { quick } else { thorough };
        let k: f64 = std::env::var("VERIF_BUDGET").ok().and_then(|s| s.parse().ok()).unwrap_or(1.0);
        ((base as f64) * k).max(1.0) as u64
    }
    pub fn quick(&self) -> bool {
        self.tier == Tier::Quick
    }
    pub fn rng(&self, label: &str, worker: usize) -> rng::Rng {
        rng::Rng::stream(self.seed, label, worker as u64)
    }
}
