//! Oracle helpers that need the library's *placement* of a cell (its planar polygon, the forward projection) or
//! its public geometry output, judged with the independent geometry of `geom` (DESIGN §4 O1, O2, O3).

use crate::geom::*;
use crate::model::*;
use a5::coordinate_systems::{Face, LonLat};
use a5::core::cell::get_pentagon;
use a5::core::coordinate_transforms::from_lon_lat;
use a5::core::utils::A5Cell;
use a5::projections::dodecahedron::DodecahedronProjection;
use std::panic::{catch_unwind, AssertUnwindSafe};

/// run library code, turning a panic into Err (a panic is an observable event, never a harness crash)
pub fn guard<T>(f: impl FnOnce() -> T) -> Result<T, String> {
    catch_unwind(AssertUnwindSafe(f)).map_err(|e| {
        if let Some(s) = e.downcast_ref::<&str>() {
            format!("panic: {s}")
        } else if let Some(s) = e.downcast_ref::<String>() {
            format!("panic: {s}")
        } else {
            "panic".to_string()
        }
    })
}

pub fn flatten<T>(r: Result<Result<T, String>, String>) -> Result<T, String> {
    match r {
        Ok(Ok(v)) => Ok(v),
        Ok(Err(e)) => Err(format!("Err({e})")),
        Err(p) => Err(p),
    }
}

/// panics raised inside the library are observable events for the monitors and stay quiet; a panic anywhere else is a
/// bug of the harness and is printed
pub fn silence_panics() {
    std::panic::set_hook(Box::new(|info| {
        let in_library = info.location().map(|l| l.file().starts_with("/repo/") || l.file().contains("/rustc/") || l.file().contains("library/")).unwrap_or(false);
        if !in_library {
            eprintln!("HARNESS PANIC: {info}\n{}", std::backtrace::Backtrace::force_capture());
        }
    }));
}

pub fn to_a5(c: MCell) -> A5Cell {
    A5Cell { origin_id: c.face, segment: c.segment(), s: c.s, resolution: c.res }
}

/// angular size of a cell of resolution r: sqrt(4 pi / N(r)) radians
pub fn cell_size(res: i32) -> f64 {
    (4.0 * std::f64::consts::PI / num_cells(res) as f64).sqrt()
}

/// planar polygon the library places for cell c (face-plane units)
pub fn cell_polygon(c: MCell) -> Result<Vec<P2>, String> {
    let shape = flatten(guard(|| get_pentagon(&to_a5(c))))?;
    Ok(shape.get_vertices_vec().iter().map(|f| [f.x(), f.y()]).collect())
}

/// forward projection of a lon/lat (degrees) relative to `face`
pub fn project(lon: f64, lat: f64, face: u8) -> Result<P2, String> {
    let f: Face = flatten(guard(|| DodecahedronProjection::get_thread_local().forward(from_lon_lat(LonLat::new(lon, lat)), face)))?;
    Ok([f.x(), f.y()])
}

/// O1: signed planar distance (face-plane units ~ radians; negative inside) of the physical point to cell c.
/// The longitude is reduced exactly first, so the library's handling of wrapped longitudes is judged, not trusted.
pub fn o1(c: MCell, lon: f64, lat: f64) -> Result<f64, String> {
    let poly = cell_polygon(c)?;
    let q = project(reduce_lon_deg(lon), lat.clamp(-90.0, 90.0), c.face)?;
    Ok(convex_signed_dist(&poly, q))
}

/// the band C01 grants along cell edges: 1e-12 rad plus what one ulp of the given longitude is worth
pub fn lookup_band(lon: f64) -> f64 {
    let x = lon.abs() + 93.0;
    let ulp = f64::from_bits(x.to_bits() + 1) - x;
    1e-12 + 4.0 * ulp.to_radians()
}

/// reported ring of a cell as unit vectors (open ring), through the public API and the closed-form authalic latitude
pub fn ring_units(id: u64, segments: i32) -> Result<Vec<V3>, String> {
    let opts = a5::core::cell::CellToBoundaryOptions { closed_ring: false, segments: Some(segments) };
    let ring = flatten(guard(|| a5::cell_to_boundary(id, Some(opts))))?;
    Ok(ring.iter().map(|p| unit_from_lonlat(p.longitude(), p.latitude())).collect())
}

pub fn centre_unit(id: u64) -> Result<V3, String> {
    let c = flatten(guard(|| a5::cell_to_lonlat(id)))?;
    Ok(unit_from_lonlat(c.longitude(), c.latitude()))
}

/// O2: containment of direction p in a reported ring: (inside, angular distance to the nearest ring segment)
pub fn o2(ring: &[V3], p: V3) -> (bool, f64) {
    let c = centroid_dir(ring);
    if dot(p, c) <= 0.2 {
        // far side of the sphere (only base cells are large enough for this to be close): clearly outside
        return (false, chord_angle(p, c));
    }
    let (e1, e2) = tangent_basis(c);
    let poly: Vec<P2> = ring.iter().map(|v| gnomonic(*v, c, e1, e2)).collect();
    let q = gnomonic(p, c, e1, e2);
    let (inside, _) = polygon_inside_dist(&poly, q);
    (inside, ring_min_dist(ring, p))
}

/// O2 band: what separates the true edge from the chords of the subdivided ring: curvature bulge (quadratic in the
/// segment length), the kink an edge makes where it crosses one of the projection's internal triangle seams (linear
/// in the cell size; measured <= 2.1e-4 cell sizes at 16 segments, granted 2e-3) and a quantisation floor.
pub fn o2_band(res: i32, segments: i32) -> f64 {
    let l = cell_size(res) * 1.6;
    5e-14 + 5.0 * (l / segments as f64).powi(2) + 2e-3 * cell_size(res)
}

/// O3: area of a reported ring (steradians, positive = counter-clockwise seen from outside)
pub fn ring_area(ring: &[V3], res: i32) -> f64 {
    let c = centroid_dir(ring);
    if res < 12 {
        sph_area_fan(ring, c)
    } else {
        sph_area_small(ring, c)
    }
}

pub fn lookup(lon: f64, lat: f64, res: i32) -> Result<u64, String> {
    flatten(guard(|| a5::lonlat_to_cell(LonLat::new(lon, lat), res)))
}

#[cfg(feature = "hooks")]
pub fn last_lookup_branch() -> (u8, u8, u8) {
    a5::core::cell::verif::last_lookup()
}
#[cfg(not(feature = "hooks"))]
pub fn last_lookup_branch() -> (u8, u8, u8) {
    (255, 0, 0)
}

/// centres of the 12 base cells as reported by the public API (unit vectors, geographic frame), indexed by face id
pub fn face_centres() -> &'static [V3; 12] {
    static T: std::sync::OnceLock<[V3; 12]> = std::sync::OnceLock::new();
    T.get_or_init(|| {
        let mut t = [[0.0; 3]; 12];
        for f in 0..12u8 {
            t[f as usize] = centre_unit(encode(MCell::new(0, f, 0, 0))).expect("cell_to_lonlat of a base cell failed");
        }
        t
    })
}

/// (nearest face id, its angular distance, runner-up distance) by true great-circle distance to the reported centres
pub fn nearest_face(p: V3) -> (u8, f64, f64) {
    let mut best = (0u8, f64::INFINITY);
    let mut second = f64::INFINITY;
    for (i, c) in face_centres().iter().enumerate() {
        let d = angle(p, *c);
        if d < best.1 {
            second = best.1;
            best = (i as u8, d);
        } else if d < second {
            second = d;
        }
    }
    (best.0, best.1, second)
}

// guarded wrappers of the public hierarchy / compaction API
pub fn children(id: u64, target: Option<i32>) -> Result<Vec<u64>, String> {
    flatten(guard(|| a5::cell_to_children(id, target)))
}
pub fn parent(id: u64, target: Option<i32>) -> Result<u64, String> {
    flatten(guard(|| a5::cell_to_parent(id, target)))
}
pub fn compact(ids: &[u64]) -> Result<Vec<u64>, String> {
    flatten(guard(|| a5::compact(ids)))
}
pub fn uncompact(ids: &[u64], target: i32) -> Result<Vec<u64>, String> {
    flatten(guard(|| a5::uncompact(ids, target)))
}
pub fn ids_json(ids: &[u64]) -> serde_json::Value {
    serde_json::Value::Array(ids.iter().map(|i| serde_json::Value::String(crate::report::hu(*i))).collect())
}
pub fn parse_ids(v: &serde_json::Value) -> Option<Vec<u64>> {
    v.as_array()?.iter().map(crate::report::parse_hex_u64).collect()
}
/// decode every id of a list; Err names the first non-canonical one
pub fn decode_all(ids: &[u64]) -> Result<Vec<MCell>, u64> {
    ids.iter().map(|&i| decode(i).ok_or(i)).collect()
}

/// History priming: immediately before a cell is judged, ask for the geometry of a *relative* of it - the same curve position on
/// another face / quintant (another curve orientation), the same face, quintant and position number at another resolution, its
/// parent or its first child. A pure function cannot be affected; a last-value memo with an incomplete key is.
pub fn prime_history(rng: &mut crate::rng::Rng, c: MCell) {
    prime_history_with(rng, c, Some(1), false)
}

/// as `prime_history`, asking for the relative's boundary with the given options (those of the call about to be judged)
pub fn prime_history_with(rng: &mut crate::rng::Rng, c: MCell, segments: Option<i32>, closed: bool) {
    if rng.below(32) == 0 {
        failed_call_history(rng);
    }
    if c.res < 2 {
        return;
    }
    let relative = match rng.below(4) {
        0 => {
            let t = rng.below(60) as u8;
            MCell::new(c.res, t / 5, t % 5, c.s)
        }
        1 => {
            let r = (c.res + 1 + rng.below(5) as i32).min(MAX_RES);
            MCell::new(r, c.face, c.q, c.s)
        }
        2 => {
            let r = (c.res - 1 - rng.below(4) as i32).max(2);
            let bits = 2 * (r - 1) as u32;
            MCell::new(r, c.face, c.q, if bits >= 64 { c.s } else { c.s & ((1u64 << bits) - 1) })
        }
        _ => {
            if rng.chance(0.5) || c.res >= MAX_RES {
                parent_at(c, c.res - 1).unwrap_or(c)
            } else {
                children_at(c, c.res + 1)[0]
            }
        }
    };
    let id = encode(relative);
    if rng.chance(0.3) {
        // revisit pattern: the cell itself, then one to four other cells, then the cell again - immediately before it is judged.
        // A small most-recently-used store that mishandles a hit on its oldest entry answers the judged call with stale data.
        let me = encode(c);
        let ask = |w: u64, boundary: bool| {
            let _ = guard(|| a5::cell_to_lonlat(w));
            if boundary {
                let _ = guard(|| a5::cell_to_boundary(w, Some(a5::core::cell::CellToBoundaryOptions { closed_ring: closed, segments })));
            }
        };
        let both = rng.chance(0.5);
        ask(me, both);
        ask(id, both);
        for _ in 0..rng.below(4) {
            let t = rng.below(60) as u8;
            let bits = 2 * (c.res - 1) as u32;
            let s = if bits >= 64 { rng.next() } else { rng.next() & ((1u64 << bits) - 1) };
            ask(encode(MCell::new(c.res, t / 5, t % 5, s)), both);
        }
        ask(me, both);
        return;
    }
    let _ = guard(|| a5::cell_to_lonlat(id));
    if rng.chance(0.6) {
        let _ = guard(|| a5::cell_to_boundary(id, Some(a5::core::cell::CellToBoundaryOptions { closed_ring: closed, segments })));
    }
}

/// Failed-call history: a few calls that are rejected (or, on a changed tree, might not be) on the error paths of the public
/// functions - an uncompact that fails half way through its list, hierarchy calls with resolutions on the wrong side, ids that
/// are not cells, an out-of-range lookup. Results are ignored: a pure function leaves nothing behind when it returns an error, so
/// the calls judged afterwards must be unaffected. Nothing here can produce more than 4^4 ids.
pub fn failed_call_history(rng: &mut crate::rng::Rng) {
    use crate::gen;
    let k = 1 + rng.below(3);
    for _ in 0..k {
        let res = 2 + rng.below(24) as i32;
        let good = encode(gen::random_cell(rng, res));
        // target of the expansions below
        let t_up = res + 1 + rng.below(3) as i32;
        // a word with a face field beyond the last face and the resolution marker of a cell a little coarser than that target
        let badtop = ((60 + rng.below(4)) << 58) | (1u64 << marker_bit((t_up - 1 - rng.below(3) as i32).max(0)));
        let class = gen::HOSTILE_ID_CLASSES[rng.below(gen::HOSTILE_ID_CLASSES.len() as u64 - 1) as usize];
        let mut bad = gen::hostile_id(rng, class);
        if decode(bad).is_some() || t_up - alias_resolution(bad) > 6 {
            // the hostile generator hit a real cell, or a word whose marker reads as a much coarser cell (the library sizes its
            // output buffer from the marker before it looks at the rest): use the word that is certainly neither
            bad = badtop;
        }
        match rng.below(14) {
            12 | 13 => {
                // the projection itself, relative to a face that does not exist
                use a5::coordinate_systems::{Radians, Spherical};
                let face = *rng.pick(&[12u8, 13, 17, 23, 24, 59, 255]);
                let (x, y) = (rng.range(-0.7, 0.7), rng.range(-0.7, 0.7));
                let (theta, phi) = (rng.range(0.0, 6.28), rng.range(0.1, 3.0));
                let _ = guard(|| DodecahedronProjection::get_thread_local().inverse(Face::new(x, y), face));
                let _ = guard(|| DodecahedronProjection::get_thread_local().forward(Spherical::new(Radians::new_unchecked(theta), Radians::new_unchecked(phi)), face));
            }
            0 => {
                // fails inside the expansion, after some cells have been expanded
                let _ = guard(|| a5::uncompact(&[good, badtop], t_up));
            }
            1 => {
                let _ = guard(|| a5::uncompact(&[good, bad], t_up));
            }
            2 => {
                // a cell finer than the target
                let _ = guard(|| a5::uncompact(&[good], res - 1));
            }
            3 => {
                let t = if rng.chance(0.5) { 30 + rng.below(3) as i32 } else { -2 - rng.below(3) as i32 };
                let _ = guard(|| a5::uncompact(&[good], t));
            }
            4 => {
                let _ = guard(|| a5::compact(&[good, badtop, bad]));
            }
            5 => {
                // children at a coarser or out-of-range resolution
                let t = if rng.chance(0.5) { res - 1 } else { 30 + rng.below(3) as i32 };
                let _ = guard(|| a5::cell_to_children(good, Some(t)));
            }
            6 => {
                let w = if rng.chance(0.5) { badtop } else { bad };
                let t = (alias_resolution(w) + 1).clamp(0, MAX_RES);
                let _ = guard(|| a5::cell_to_children(w, Some(t)));
            }
            7 => {
                // parent at a finer or out-of-range resolution
                let t = if rng.chance(0.5) { res + 1 } else { -2 - rng.below(3) as i32 };
                let _ = guard(|| a5::cell_to_parent(good, Some(t)));
            }
            8 => {
                let _ = guard(|| a5::cell_to_parent(if rng.chance(0.5) { badtop } else { bad }, Some(1)));
            }
            9 => {
                let t = if rng.chance(0.5) { 30 + rng.below(3) as i32 } else { -2 - rng.below(3) as i32 };
                let (lon, lat) = (rng.range(-180.0, 180.0), rng.range(-90.0, 90.0));
                let _ = guard(|| a5::lonlat_to_cell(a5::LonLat::new(lon, lat), t));
            }
            10 => {
                let id = if rng.chance(0.5) { badtop } else { bad };
                let _ = guard(|| a5::cell_to_lonlat(id));
                let _ = guard(|| a5::cell_to_boundary(id, None));
            }
            _ => {
                let _ = guard(|| a5::hex_to_u64(if rng.chance(0.5) { "zz" } else { "" }));
            }
        }
    }
}

/// A word that is not the canonical id of `c` but that the library's documented scan reads as `c`: the canonical id with one
/// stray bit set below the resolution marker (None for resolutions without room below the marker). C14 lets the library either
/// reject such a word or treat it as the cell it aliases; whichever it does, it must do it consistently.
pub fn stray_alias(rng: &mut crate::rng::Rng, c: MCell) -> Option<u64> {
    if c.res == 1 {
        // a quintant id has one stray position ABOVE its marker (bit 56) that the scan ignores: bit 57, the marker position of
        // resolution 0, which the lowest-set-marker rule never reaches; below the marker every position is a finer marker or a
        // plain stray bit like for the finer cells
        let w = encode(c) | (1u64 << 57);
        return if alias_cell(w) == Some(c) { Some(w) } else { None };
    }
    if c.res < 2 {
        return None;
    }
    let m = marker_bit(c.res);
    if m == 0 {
        return None;
    }
    // even positions below the marker are never marker positions of a finer resolution... odd ones are: only bits that
    // keep the scan's answer (the LOWEST set marker position decides) may be set, i.e. non-marker positions
    let candidates: Vec<u32> = (0..m).filter(|b| (0..=MAX_RES).all(|r| marker_bit(r) != *b)).collect();
    if candidates.is_empty() {
        return None;
    }
    let b = candidates[rng.usize(candidates.len())];
    let w = encode(c) | (1u64 << b);
    if alias_cell(w) == Some(c) {
        Some(w)
    } else {
        None
    }
}
