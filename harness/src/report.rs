//! What a monitor run observed: counters, worst-case margins, literal samples, violations. One `Run` per worker
//! thread, merged at the end; the driver (`/verif/check`) turns the merged run into evidence/<id>.json.

use serde_json::{json, Map, Value};
use std::collections::{BTreeMap, HashSet};

pub const MAX_STORED_VIOLATIONS: usize = 40;
pub const MAX_NONTRIVIAL_SET: usize = 4_000_000;
pub const MAX_SAMPLES_PER_CLASS: usize = 2;

pub fn hx(x: f64) -> String {
    format!("0x{:016x}", x.to_bits())
}
pub fn hu(x: u64) -> String {
    format!("0x{:016x}", x)
}
/// a float in a case: decimal for the reader, bits for the replay
pub fn fj(x: f64) -> Value {
    json!({ "v": x, "bits": hx(x) })
}
pub fn parse_hex_u64(v: &Value) -> Option<u64> {
    let s = v.as_str()?;
    u64::from_str_radix(s.trim_start_matches("0x"), 16).ok()
}
pub fn parse_f(v: &Value) -> Option<f64> {
    if let Some(b) = v.get("bits") {
        return parse_hex_u64(b).map(f64::from_bits);
    }
    if v.is_string() {
        return parse_hex_u64(v).map(f64::from_bits);
    }
    v.as_f64()
}

#[derive(Default)]
pub struct Run {
    pub evaluations: u64,
    pub counters: BTreeMap<String, u64>,
    /// key -> (worst observed, bound, case that produced it)
    pub margins: BTreeMap<String, (f64, f64, Value)>,
    pub samples: BTreeMap<String, Vec<Value>>,
    pub violations: Vec<Value>,
    pub violation_count: u64,
    pub violation_kinds: BTreeMap<String, u64>,
    pub nontrivial: HashSet<u64>,
    pub nontrivial_capped: bool,
    pub inconclusive: Vec<String>,
    pub notes: Vec<String>,
}

impl Run {
    pub fn new() -> Run {
        Run::default()
    }
    #[inline]
    pub fn count(&mut self, key: &str) {
        self.countn(key, 1)
    }
    #[inline]
    pub fn countn(&mut self, key: &str, n: u64) {
        if let Some(v) = self.counters.get_mut(key) {
            *v += n;
        } else {
            self.counters.insert(key.to_string(), n);
        }
    }
    /// record a measured quantity next to its bound (larger = worse); returns true when it exceeds the bound
    #[inline]
    pub fn margin(&mut self, key: &str, value: f64, bound: f64, case: impl FnOnce() -> Value) -> bool {
        match self.margins.get_mut(key) {
            Some(m) => {
                if value > m.0 || value.is_nan() {
                    *m = (value, bound, case());
                }
            }
            None => {
                self.margins.insert(key.to_string(), (value, bound, case()));
            }
        }
        !(value <= bound)
    }
    #[inline]
    pub fn nontrivial(&mut self, h: u64) {
        if self.nontrivial.len() < MAX_NONTRIVIAL_SET {
            self.nontrivial.insert(h);
        } else {
            self.nontrivial_capped = true;
        }
    }
    pub fn sample(&mut self, class: &str, case: impl FnOnce() -> Value) {
        let e = self.samples.entry(class.to_string()).or_default();
        if e.len() < MAX_SAMPLES_PER_CLASS {
            e.push(case());
        }
    }
    pub fn wants_sample(&self, class: &str) -> bool {
        self.samples.get(class).map(|v| v.len()).unwrap_or(0) < MAX_SAMPLES_PER_CLASS
    }
    /// a violation: `check` names the oracle clause (and selects the replay routine), `case` holds the inputs as bits
    pub fn violation(&mut self, check: &str, case: Value, message: String) {
        self.violation_count += 1;
        *self.violation_kinds.entry(check.to_string()).or_insert(0) += 1;
        let same_kind = self.violations.iter().filter(|v| v["check"] == check).count();
        if self.violations.len() < MAX_STORED_VIOLATIONS && same_kind < 8 {
            self.violations.push(json!({ "check": check, "case": case, "message": message }));
        }
    }
    pub fn inconclusive(&mut self, why: String) {
        if !self.inconclusive.contains(&why) {
            self.inconclusive.push(why);
        }
    }
    pub fn note(&mut self, s: String) {
        if !self.notes.contains(&s) {
            self.notes.push(s);
        }
    }
    pub fn merge(&mut self, o: Run) {
        self.evaluations += o.evaluations;
        for (k, v) in o.counters {
            *self.counters.entry(k).or_insert(0) += v;
        }
        for (k, m) in o.margins {
            match self.margins.get_mut(&k) {
                Some(cur) => {
                    if m.0 > cur.0 || m.0.is_nan() {
                        *cur = m;
                    }
                }
                None => {
                    self.margins.insert(k, m);
                }
            }
        }
        for (k, v) in o.samples {
            let e = self.samples.entry(k).or_default();
            for s in v {
                if e.len() < MAX_SAMPLES_PER_CLASS {
                    e.push(s);
                }
            }
        }
        self.violation_count += o.violation_count;
        for (k, v) in o.violation_kinds {
            *self.violation_kinds.entry(k).or_insert(0) += v;
        }
        for v in o.violations {
            let same_kind = self.violations.iter().filter(|x| x["check"] == v["check"]).count();
            if self.violations.len() < MAX_STORED_VIOLATIONS && same_kind < 8 {
                self.violations.push(v);
            }
        }
        for h in o.nontrivial {
            self.nontrivial(h);
        }
        self.nontrivial_capped |= o.nontrivial_capped;
        for s in o.inconclusive {
            self.inconclusive(s);
        }
        for s in o.notes {
            self.note(s);
        }
    }
    pub fn to_json(&self) -> Value {
        let mut margins = Map::new();
        for (k, (v, b, c)) in &self.margins {
            margins.insert(k.clone(), json!({ "worst": v, "bound": b, "case": c }));
        }
        let mut samples: Vec<Value> = Vec::new();
        for (k, vs) in &self.samples {
            for v in vs {
                samples.push(json!({ "class": k, "case": v }));
            }
        }
        json!({
            "evaluations": self.evaluations,
            "distinct_nontrivial": self.nontrivial.len(),
            "distinct_nontrivial_is_lower_bound": self.nontrivial_capped,
            "counters": self.counters,
            "margins": margins,
            "samples": samples,
            "violations": self.violations,
            "violation_count": self.violation_count,
            "violation_kinds": self.violation_kinds,
            "inconclusive": self.inconclusive,
            "notes": self.notes,
        })
    }
}

/// run `f(worker, &mut Run)` on `threads` worker threads and merge
pub fn parallel<F>(threads: usize, f: F) -> Run
where
    F: Fn(usize, &mut Run) + Sync,
{
    let mut total = Run::new();
    let runs: Vec<Run> = std::thread::scope(|sc| {
        let hs: Vec<_> = (0..threads)
            .map(|w| {
                let f = &f;
                sc.spawn(move || {
                    let mut r = Run::new();
                    f(w, &mut r);
                    r
                })
            })
            .collect();
        hs.into_iter().map(|h| h.join().expect("worker thread panicked")).collect()
    });
    for r in runs {
        total.merge(r);
    }
    total
}

pub fn n_threads() -> usize {
    std::env::var("VERIF_THREADS")
        .ok()
        .and_then(|s| s.parse().ok())
        .unwrap_or_else(|| std::thread::available_parallelism().map(|n| n.get()).unwrap_or(8))
        .max(1)
}
