//! Run-time discovery of discontinuities of the face projection (DESIGN 12d).
//!
//! The hostile point classes of `gen` sit on loci read off the code of the unchanged tree (face edges, internal seams, the
//! radii at which closed forms switch to series). A changed tree can move such a threshold or add a new one: a guard with an
//! absolute epsilon, a series with one term less, a shortcut inside some radius. Wherever the two formulas disagree the map
//! jumps, and the cells (or lookups) that straddle the jump are the only ones that are wrong - a band a few centimetres wide
//! that random sampling does not hit.
//!
//! So the jumps are looked for directly. The inverse projection (plane -> sphere) and the forward projection (sphere -> plane)
//! are evaluated along lines: rays out of every corner of the projection's triangles (face centre, edge midpoints, face
//! vertices) with logarithmic steps, so that a ring of any radius between 1e-13 and the face size around such a corner is crossed,
//! and random chords across the face with uniform steps. Along a line the fourth difference of a smooth map is ~ step^4 and
//! the rounding noise of the projection is ~ 1e-13, while a jump J contributes ~ 3 J: every sample whose fourth difference
//! stands out is examined by repeated 8-fold subdivision down to a width of 2e-12. A kink (the map is only C0 across the
//! seams and the face edge) shrinks with the width and is discarded; what remains is a point where the map really jumps, by
//! more than 3e-13 rad (the projection's own rounding noise is ~3e-14). The located points are handed to the monitors as one more class of hostile places ("discovered"):
//! each property judges cells and lookups there with its own oracle, so a discovered locus on a tree where the property holds
//! raises nothing.
use crate::geom::*;
use crate::mon::c15::{fwd, in_projection_domain, inv, D_EDGE, R_VERTEX};
use crate::orc::face_centres;
use crate::rng::Rng;
use std::cell::Cell;
use std::sync::atomic::{AtomicBool, AtomicU64, Ordering};
use std::sync::OnceLock;

#[derive(Clone, Debug)]
pub struct LocusPt {
    pub face: u8,
    /// planar location (face coordinates) of the jump
    pub q: P2,
    /// the same place on the sphere (geographic frame, authalic sphere)
    pub v: V3,
    /// size of the jump in the map's output (rad for the inverse, face units ~ rad for the forward map)
    pub jump: f64,
    pub map: &'static str,
}

#[derive(Default, Debug)]
pub struct Loci {
    pub points: Vec<LocusPt>,
    pub lines: u64,
    pub evaluations: u64,
    pub candidates: u64,
    pub discarded_as_kinks_or_noise: u64,
}

static CONFIG: OnceLock<(u64, bool)> = OnceLock::new();
static LOCI: OnceLock<Loci> = OnceLock::new();

/// smallest jump that is kept as a locus
pub const MIN_JUMP: f64 = 2e-13;
const FLAG: f64 = 4e-13;

pub fn configure(seed: u64, quick: bool) {
    let _ = CONFIG.set((seed, quick));
}

static ENABLED: AtomicBool = AtomicBool::new(false);
static SUBSTITUTED: AtomicU64 = AtomicU64::new(0);
thread_local! { static HINT: Cell<Option<f64>> = const { Cell::new(None) }; }

/// called by the monitors of the geometric properties: scan now, and from then on let the point generators put a share of
/// their points on the discovered loci (none are discovered on the unchanged tree, whose random streams stay as they were)
pub fn enable(seed: u64, quick: bool) -> &'static Loci {
    configure(seed, quick);
    let l = discovered();
    ENABLED.store(true, Ordering::SeqCst);
    l
}

fn active() -> Option<&'static Loci> {
    if !ENABLED.load(Ordering::Relaxed) {
        return None;
    }
    LOCI.get().filter(|l| !l.points.is_empty())
}

/// one in eight hostile points is moved onto a discovered locus (when there are any); remembers the size of the jump there
/// so that the next `gen::random_res` picks a resolution whose cells are comparable to it
pub fn substitute(rng: &mut Rng) -> Option<(f64, f64)> {
    HINT.with(|h| h.set(None));
    active()?;
    if !rng.chance(0.125) {
        return None;
    }
    let (ll, jump) = sample(rng)?;
    HINT.with(|h| h.set(Some(jump)));
    SUBSTITUTED.fetch_add(1, Ordering::Relaxed);
    Some(ll)
}

/// planar variant: (face coordinates next to a located jump, face)
pub fn substitute_plane(rng: &mut Rng) -> Option<(P2, u8)> {
    let l = active()?;
    if !rng.chance(0.125) {
        return None;
    }
    let p = &l.points[rng.below(l.points.len() as u64) as usize];
    if p.face >= 12 {
        return None;
    }
    let eps = if rng.chance(0.2) { 0.0 } else { p.jump.max(1e-12) * 10f64.powf(rng.range(-1.0, 4.0)) };
    let g = rng.range(0.0, std::f64::consts::TAU);
    SUBSTITUTED.fetch_add(1, Ordering::Relaxed);
    Some(([p.q[0] + eps * g.cos(), p.q[1] + eps * g.sin()], p.face))
}

/// a located jump of the inverse projection itself: (planar location, face, size of the jump)
pub fn pick_inverse_locus(rng: &mut Rng) -> Option<(P2, u8, f64)> {
    let l = active()?;
    let p = &l.points[rng.below(l.points.len() as u64) as usize];
    if p.face >= 12 || p.map != "inverse" {
        return None;
    }
    Some((p.q, p.face, p.jump))
}

pub fn take_hint_res(rng: &mut Rng) -> Option<i32> {
    let jump = HINT.with(|h| h.take())?;
    Some(matching_resolution(rng, jump))
}

/// the loci of this process (scanned on first use)
pub fn discovered() -> &'static Loci {
    LOCI.get_or_init(|| {
        let (seed, quick) = *CONFIG.get().unwrap_or(&(1, true));
        scan(seed, quick)
    })
}

type Line<'a> = &'a (dyn Fn(f64) -> Option<V3> + Sync);

/// examine [a, b] (a line parameter interval around a flagged sample): returns (parameter, jump) for every place inside at which
/// the map jumps. The interval is split in 8 again and again, following the sub-interval whose increment stands out; a second
/// sub-interval that stands out as well (a jump a few 1e-8 beside the kink at the face edge) is followed separately.
fn examine(f: Line, a0: f64, b0: f64, evals: &mut u64) -> Vec<(f64, f64)> {
    let stop = |a: f64, b: f64| (b - a) <= 2e-12 * (1.0f64).max(a.abs().min(b.abs()));
    let mut work = vec![(a0, b0)];
    let mut out = Vec::new();
    let mut explored = 0;
    while let Some((mut a, mut b)) = work.pop() {
        explored += 1;
        if explored > 16 {
            break;
        }
        let mut ok = true;
        let mut guard = 0;
        while !stop(a, b) && guard < 40 {
            guard += 1;
            let n = 8;
            let dt = (b - a) / n as f64;
            // 8 sub-intervals plus two more on either side (where the line's domain allows) for the stencil below
            let vals: Vec<Option<V3>> = (-2..=n as i64 + 2).map(|i| f(a + dt * i as f64)).collect();
            *evals += n as u64 + 5;
            if vals[2..=n + 2].iter().any(|v| v.is_none()) {
                ok = false;
                break;
            }
            // increments; index k + 2 holds sub-interval k
            let mut steps: Vec<Option<V3>> = (0..n + 4).map(|i| match (vals[i], vals[i + 1]) {
                (Some(p), Some(q)) => Some(sub(q, p)),
                _ => None,
            }).collect();
            // outside the domain: continue the increments linearly
            for i in [1usize, 0] {
                if steps[i].is_none() {
                    steps[i] = Some(sub(scale(steps[i + 1].unwrap(), 2.0), steps[i + 2].unwrap()));
                }
            }
            for i in [n + 2, n + 3] {
                if steps[i].is_none() {
                    steps[i] = Some(sub(scale(steps[i - 1].unwrap(), 2.0), steps[i - 2].unwrap()));
                }
            }
            let st: Vec<V3> = steps.into_iter().map(|x| x.unwrap()).collect();
            // each increment against the cubic trend of its four neighbours: (-1, 4, -6, 4, -1) / 6. For a smooth map the
            // residual is ~ dt^5; a jump J inside sub-interval k leaves J there, -2J/3 in its neighbours and J/6 beyond
            let mut dev: Vec<(usize, f64)> = (0..n)
                .map(|k| {
                    let c = k + 2;
                    let mut r = [0.0; 3];
                    for d in 0..3 {
                        r[d] = (-st[c - 2][d] + 4.0 * st[c - 1][d] - 6.0 * st[c][d] + 4.0 * st[c + 1][d] - st[c + 2][d]) / 6.0;
                    }
                    (k, norm(r))
                })
                .collect();
            dev.sort_by(|x, y| y.1.partial_cmp(&x.1).unwrap());
            let typical = dev[n / 2].1;
            let stands_out = |d: f64| d > 0.5 * MIN_JUMP && d > 5.0 * typical;
            if !stands_out(dev[0].1) {
                // nothing in here: the flag was curvature (or noise), which this finer look resolves
                ok = false;
                break;
            }
            // further sub-intervals that stand out are followed separately: a jump a few 1e-8 beside the kink at the face edge,
            // the second edge of a snapped band (adjacent ones too; the echo of a jump in its neighbours dies out one level down)
            for d in &dev[1..3] {
                if stands_out(d.1) && work.len() < 12 {
                    work.push((a + dt * d.0 as f64, a + dt * (d.0 as f64 + 1.0)));
                }
            }
            a += dt * dev[0].0 as f64;
            b = a + dt;
        }
        if !ok {
            continue;
        }
        // the jump that remains at the final width, against the smooth increment measured just outside on both sides
        let w = b - a;
        let (Some(fa), Some(fb), Some(fl), Some(fr)) = (f(a), f(b), f(a - w), f(b + w)) else { continue };
        *evals += 4;
        // (as vectors: a jump at right angles to the direction of travel adds to the increment only in quadrature)
        let smooth = scale(add(sub(fa, fl), sub(fr, fb)), 0.5);
        let jump = norm(sub(sub(fb, fa), smooth));
        if jump > MIN_JUMP {
            out.push((0.5 * (a + b), jump));
        }
    }
    out
}

/// scan t in [t0, t1] with n uniform steps of the line parameter; flagged samples are examined
fn scan_line(f: Line, t0: f64, t1: f64, n: usize, stats: &mut Loci, found: &mut Vec<(f64, f64)>) {
    stats.lines += 1;
    let dt = (t1 - t0) / n as f64;
    let vals: Vec<Option<V3>> = (0..=n).map(|i| f(t0 + dt * i as f64)).collect();
    stats.evaluations += n as u64 + 1;
    let mut last_examined = -10i64;
    for i in 2..n.saturating_sub(1) {
        let w = [vals[i - 2], vals[i - 1], vals[i], vals[i + 1], vals[i + 2]];
        if w.iter().any(|x| x.is_none()) {
            continue;
        }
        let w: Vec<V3> = w.iter().map(|x| x.unwrap()).collect();
        let mut d4 = [0.0; 3];
        for k in 0..3 {
            d4[k] = w[0][k] - 4.0 * w[1][k] + 6.0 * w[2][k] - 4.0 * w[3][k] + w[4][k];
        }
        if norm(d4) > FLAG && (i as i64) > last_examined + 2 {
            last_examined = i as i64;
            stats.candidates += 1;
            let mut e = 0;
            let hits = examine(f, t0 + dt * (i as f64 - 2.0), t0 + dt * (i as f64 + 2.0), &mut e);
            if hits.is_empty() {
                stats.discarded_as_kinks_or_noise += 1;
            }
            found.extend(hits);
            stats.evaluations += e;
        }
    }
}

fn planar_corners() -> Vec<P2> {
    let mut c = vec![[0.0, 0.0]];
    for k in 0..5 {
        let a = (72.0 * k as f64).to_radians();
        c.push([D_EDGE * a.cos(), D_EDGE * a.sin()]);
        let b = (36.0 + 72.0 * k as f64).to_radians();
        c.push([R_VERTEX * b.cos(), R_VERTEX * b.sin()]);
    }
    c
}

fn scan_face(face: u8, seed: u64, quick: bool) -> Loci {
    let mut stats = Loci::default();
    let mut rng = Rng::stream(seed, "loci", face as u64);
    let corners = planar_corners();
    let centre = face_centres()[face as usize];
    let (e1, e2) = tangent_basis(centre);
    let others: Vec<V3> = face_centres().iter().enumerate().filter(|(i, _)| *i != face as usize).map(|(_, c)| *c).collect();
    // forward map: points of the sphere given by gnomonic coordinates (a, b) about the face centre - a parametrisation that does
    // not involve the library; the domain is the face itself and a margin of 0.02 rad beyond its edges
    let sphere_at = |p: P2| -> V3 { normalize(add(centre, add(scale(e1, p[0]), scale(e2, p[1])))) };
    let fwd_at = |p: P2| -> Option<V3> {
        let v = sphere_at(p);
        let own = angle(v, centre);
        if others.iter().any(|o| angle(v, *o) + 0.02 < own) {
            return None;
        }
        // beyond a face vertex the unfolding is ambiguous (the reflected triangles of the two edges meeting there are not
        // adjacent in the plane): only images inside the face's own or reflected triangles belong to the domain
        fwd(v, face).ok().filter(|q| in_projection_domain(*q)).map(|q| [q[0], q[1], 0.0])
    };
    let inv_at = |q: P2| -> Option<V3> {
        if !in_projection_domain(q) {
            return None;
        }
        inv(q, face).ok()
    };
    // gnomonic coordinates of the triangle corners (for the rays of the forward scan)
    let sphere_corners: Vec<P2> = corners.iter().filter_map(|c| inv(*c, face).ok()).map(|v| gnomonic(v, centre, e1, e2)).collect();
    let rays = if quick { 3 } else { 12 };
    let chords = if quick { 10 } else { 60 };
    let log_steps = if quick { 16_000 } else { 60_000 };
    let chord_steps = if quick { 12_000 } else { 40_000 };
    for (map, corner_set) in [("inverse", &corners), ("forward", &sphere_corners)] {
        let eval = |p: P2| -> Option<V3> {
            if map == "inverse" {
                inv_at(p)
            } else {
                fwd_at(p)
            }
        };
        let mut hits: Vec<(P2, f64)> = Vec::new();
        // rays out of every triangle corner, logarithmic in the distance (1e-13 .. 0.9)
        for c in corner_set.iter() {
            for _ in 0..rays {
                let g = rng.range(0.0, std::f64::consts::TAU);
                let (dx, dy) = (g.cos(), g.sin());
                let c = *c;
                let line = move |t: f64| -> P2 {
                    let r = t.exp();
                    [c[0] + r * dx, c[1] + r * dy]
                };
                let f = |t: f64| eval(line(t));
                let mut found = Vec::new();
                scan_line(&f, (1e-13f64).ln(), (0.9f64).ln(), log_steps, &mut stats, &mut found);
                hits.extend(found.into_iter().map(|(t, j)| (line(t), j)));
            }
        }
        // rays leaving the seams and the face edges at right angles, logarithmic in the distance from the line: a band snapped
        // onto such a line is invisible from outside it
        let cs: &Vec<P2> = corner_set;
        if cs.len() == 11 {
            let mut segments: Vec<(P2, P2)> = (1..11).map(|k| (cs[0], cs[k])).collect();
            for k in 0..5 {
                let (mid, v_next, v_prev) = (cs[1 + 2 * k], cs[2 + 2 * k], cs[2 + 2 * ((k + 4) % 5)]);
                segments.push((mid, v_next));
                segments.push((mid, v_prev));
            }
            for (p0, p1) in segments {
                for _ in 0..(if quick { 1 } else { 4 }) {
                    let f0 = rng.range(0.03, 0.97);
                    let base = [p0[0] + f0 * (p1[0] - p0[0]), p0[1] + f0 * (p1[1] - p0[1])];
                    let len = ((p1[0] - p0[0]).powi(2) + (p1[1] - p0[1]).powi(2)).sqrt();
                    let nrm = [-(p1[1] - p0[1]) / len, (p1[0] - p0[0]) / len];
                    for sign in [-1.0, 1.0] {
                        let line = move |t: f64| -> P2 {
                            let d = sign * t.exp();
                            [base[0] + d * nrm[0], base[1] + d * nrm[1]]
                        };
                        let f = |t: f64| eval(line(t));
                        let mut found = Vec::new();
                        scan_line(&f, (1e-14f64).ln(), (0.05f64).ln(), log_steps / 2, &mut stats, &mut found);
                        hits.extend(found.into_iter().map(|(t, j)| (line(t), j)));
                    }
                }
            }
        }
        // random chords across the face and its margin
        for _ in 0..chords {
            let (g0, g1) = (rng.range(0.0, std::f64::consts::TAU), rng.range(0.0, std::f64::consts::TAU));
            let (r0, r1) = (0.95 * rng.range(0.0, 1.0).sqrt(), 0.95 * rng.range(0.0, 1.0).sqrt());
            let (p0, p1) = ([r0 * g0.cos(), r0 * g0.sin()], [r1 * g1.cos(), r1 * g1.sin()]);
            let line = move |t: f64| -> P2 { [p0[0] + t * (p1[0] - p0[0]), p0[1] + t * (p1[1] - p0[1])] };
            let f = |t: f64| eval(line(t));
            let mut found = Vec::new();
            scan_line(&f, 0.0, 1.0, chord_steps, &mut stats, &mut found);
            hits.extend(found.into_iter().map(|(t, j)| (line(t), j)));
        }
        for (p, jump) in hits {
            let (q, v) = if map == "inverse" {
                match inv(p, face) {
                    Ok(v) => (p, v),
                    Err(_) => continue,
                }
            } else {
                let v = sphere_at(p);
                match fwd(v, face) {
                    Ok(q) => (q, v),
                    Err(_) => continue,
                }
            };
            stats.points.push(LocusPt { face, q, v, jump, map: if map == "inverse" { "inverse" } else { "forward" } });
        }
    }
    stats
}

/// the geographic conversions (degrees <-> the library's spherical coordinates, which include geodetic <-> authalic latitude):
/// scanned along meridians (latitude lines with uniform steps, and logarithmic rays out of the poles and the equator) and along
/// parallels (longitude, two turns, so that the wrap is included). Outputs are compared as unit vectors, so the legitimate wrap
/// of an angle is not a jump.
fn scan_geographic(seed: u64, quick: bool) -> Loci {
    use crate::orc::guard;
    use a5::coordinate_systems::{LonLat, Radians, Spherical};
    use a5::core::coordinate_transforms::{from_lon_lat, to_lon_lat};
    let mut stats = Loci::default();
    let mut rng = Rng::stream(seed, "loci.geo", 0);
    let fwd_ll = |lon: f64, lat: f64| -> Option<V3> {
        let s = guard(|| from_lon_lat(LonLat::new(lon, lat))).ok()?;
        let (t, p) = (s.theta().get(), s.phi().get());
        Some([p.sin() * t.cos(), p.sin() * t.sin(), p.cos()])
    };
    let inv_ll = |theta: f64, phi: f64| -> Option<V3> {
        let l = guard(|| to_lon_lat(Spherical::new(Radians::new_unchecked(theta), Radians::new_unchecked(phi)))).ok()?;
        let (lo, la) = (l.longitude().to_radians(), l.latitude().to_radians());
        Some([la.cos() * lo.cos(), la.cos() * lo.sin(), la])
    };
    let n_lines = if quick { 6 } else { 40 };
    let steps = if quick { 40_000 } else { 200_000 };
    let mut hits: Vec<((f64, f64), f64)> = Vec::new(); // ((lon, lat) degrees, jump)
    for _ in 0..n_lines {
        // forward along a meridian
        let lon = rng.range(-180.0, 180.0);
        let f = |lat: f64| fwd_ll(lon, lat);
        let mut found = Vec::new();
        scan_line(&f, -90.0, 90.0, steps, &mut stats, &mut found);
        for anchor in [-90.0, 0.0, 90.0] {
            for sign in [-1.0, 1.0] {
                if (anchor + sign * 1.0f64).abs() > 90.0 {
                    continue;
                }
                let g = move |t: f64| fwd_ll(lon, anchor + sign * t.exp());
                let mut fnd = Vec::new();
                scan_line(&g, (1e-14f64).ln(), (60.0f64).ln(), steps / 4, &mut stats, &mut fnd);
                found.extend(fnd.into_iter().map(|(t, j)| (anchor + sign * t.exp(), j)));
            }
        }
        hits.extend(found.into_iter().map(|(lat, j)| ((lon, lat), j)));
        // forward along a parallel, two turns
        let lat = rng.range(-1.0f64, 1.0).asin().to_degrees();
        let f = |lon: f64| fwd_ll(lon, lat);
        let mut found = Vec::new();
        scan_line(&f, -360.0, 360.0, steps, &mut stats, &mut found);
        // a band snapped onto a special value is invisible from outside it: logarithmic rays out of the special longitudes
        for anchor in [-360.0, -180.0, -90.0, 0.0, 90.0, 180.0, 360.0] {
            for sign in [-1.0, 1.0] {
                let g = move |t: f64| fwd_ll(anchor + sign * t.exp(), lat);
                let mut fnd = Vec::new();
                scan_line(&g, (1e-14f64).ln(), (40.0f64).ln(), steps / 8, &mut stats, &mut fnd);
                found.extend(fnd.into_iter().map(|(t, j)| (anchor + sign * t.exp(), j)));
            }
        }
        hits.extend(found.into_iter().map(|(lon, j)| ((lon, lat), j)));
        // inverse along a meridian of the internal frame (phi = colatitude) and along a parallel (theta)
        let theta = rng.range(-3.2, 6.4);
        let f = |phi: f64| inv_ll(theta, phi);
        let mut found = Vec::new();
        scan_line(&f, 0.0, std::f64::consts::PI, steps, &mut stats, &mut found);
        for anchor in [0.0, std::f64::consts::FRAC_PI_2, std::f64::consts::PI] {
            for sign in [-1.0, 1.0] {
                let probe: f64 = anchor + sign * 0.01;
                if !(0.0..=std::f64::consts::PI).contains(&probe) {
                    continue;
                }
                let g = move |t: f64| inv_ll(theta, anchor + sign * t.exp());
                let mut fnd = Vec::new();
                scan_line(&g, (1e-15f64).ln(), (1.0f64).ln(), steps / 4, &mut stats, &mut fnd);
                found.extend(fnd.into_iter().map(|(t, j)| (anchor + sign * t.exp(), j)));
            }
        }
        for (phi, j) in found {
            if let Ok(l) = guard(|| to_lon_lat(Spherical::new(Radians::new_unchecked(theta), Radians::new_unchecked(phi)))) {
                hits.push(((l.longitude(), l.latitude()), j));
            }
        }
        let phi = rng.range(-1.0f64, 1.0).acos();
        let f = |theta: f64| inv_ll(theta, phi);
        let mut found = Vec::new();
        scan_line(&f, -6.3, 6.3, steps, &mut stats, &mut found);
        // special values of the internal azimuth and of the longitude it stands for (theta = longitude + 93 degrees)
        let mut anchors: Vec<f64> = (-4..=4).map(|k| k as f64 * std::f64::consts::FRAC_PI_2).collect();
        anchors.extend([-180.0f64, -90.0, 0.0, 90.0, 180.0].iter().map(|l| (l + 93.0).to_radians()));
        anchors.extend([-180.0f64, -90.0, 0.0, 90.0, 180.0].iter().map(|l| (l + 93.0 - 360.0).to_radians()));
        for anchor in anchors {
            for sign in [-1.0, 1.0] {
                let g = move |t: f64| inv_ll(anchor + sign * t.exp(), phi);
                let mut fnd = Vec::new();
                scan_line(&g, (1e-15f64).ln(), (0.5f64).ln(), steps / 8, &mut stats, &mut fnd);
                found.extend(fnd.into_iter().map(|(t, j)| (anchor + sign * t.exp(), j)));
            }
        }
        for (theta, j) in found {
            if let Ok(l) = guard(|| to_lon_lat(Spherical::new(Radians::new_unchecked(theta), Radians::new_unchecked(phi)))) {
                hits.push(((l.longitude(), l.latitude()), j));
            }
        }
    }
    for ((lon, lat), jump) in hits {
        if !(lon.is_finite() && lat.is_finite()) {
            continue;
        }
        let v = unit_from_lonlat(lon, lat.clamp(-90.0, 90.0));
        stats.points.push(LocusPt { face: 255, q: [lon, lat], v, jump, map: "geographic" });
    }
    stats
}

fn scan(seed: u64, quick: bool) -> Loci {
    let parts: Vec<Loci> = std::thread::scope(|s| {
        let handles: Vec<_> = (0..12u8).map(|f| s.spawn(move || scan_face(f, seed, quick))).collect();
        let geo = s.spawn(move || scan_geographic(seed, quick));
        let mut v: Vec<Loci> = handles.into_iter().map(|h| h.join().unwrap_or_default()).collect();
        v.push(geo.join().unwrap_or_default());
        v
    });
    let mut all = Loci::default();
    for p in parts {
        all.points.extend(p.points);
        all.lines += p.lines;
        all.evaluations += p.evaluations;
        all.candidates += p.candidates;
        all.discarded_as_kinks_or_noise += p.discarded_as_kinks_or_noise;
    }
    all
}

/// a point on / next to a discovered locus: (lon, lat) in degrees, the jump there; None when nothing was discovered
pub fn sample(rng: &mut Rng) -> Option<((f64, f64), f64)> {
    let l = discovered();
    if l.points.is_empty() {
        return None;
    }
    let p = &l.points[rng.below(l.points.len() as u64) as usize];
    if p.map == "geographic" && rng.chance(0.7) {
        // a jump of a latitude or longitude conversion runs along the whole parallel / meridian: keep one coordinate (up to an
        // offset of a few jump widths, in degrees) and draw the other
        let off = if rng.chance(0.25) { 0.0 } else { p.jump.to_degrees() * 10f64.powf(rng.range(-1.0, 3.5)) * rng.sign() };
        let ll = if rng.chance(0.5) { (rng.range(-180.0, 180.0), (p.q[1] + off).clamp(-90.0, 90.0)) } else { (p.q[0] + off, rng.range(-90.0, 90.0)) };
        return Some((ll, p.jump));
    }
    // offsets from exactly on the locus up to a few thousand jump widths to either side
    let eps = if rng.chance(0.25) { 0.0 } else { p.jump * 10f64.powf(rng.range(-1.0, 3.5)) };
    let (e1, e2) = tangent_basis(p.v);
    let g = rng.range(0.0, std::f64::consts::TAU);
    let v = normalize(add(p.v, add(scale(e1, eps * g.cos()), scale(e2, eps * g.sin()))));
    Some((lonlat_from_unit(v), p.jump))
}

/// resolution whose cells are comparable to a jump of the given size (a cell 1..300 jumps across), within 2..=29
pub fn matching_resolution(rng: &mut Rng, jump: f64) -> i32 {
    let target = jump * 10f64.powf(rng.range(0.0, 2.5));
    let mut best = 29;
    for r in 2..=29 {
        if crate::orc::cell_size(r) <= target {
            best = r;
            break;
        }
    }
    best
}

pub fn counters() -> Vec<(String, u64)> {
    let l = discovered();
    vec![
        ("loci.lines_scanned".to_string(), l.lines),
        ("loci.projection_evaluations".to_string(), l.evaluations),
        ("loci.flagged_samples_examined".to_string(), l.candidates),
        ("loci.discarded_as_kinks_or_noise".to_string(), l.discarded_as_kinks_or_noise),
        ("loci.discontinuities_located".to_string(), l.points.len() as u64),
        ("loci.hostile_points_moved_onto_a_located_discontinuity".to_string(), SUBSTITUTED.load(Ordering::Relaxed)),
    ]
}

#[cfg(test)]
mod tests {
    use super::*;

    fn run(f: Line, t0: f64, t1: f64, n: usize) -> Vec<(f64, f64)> {
        let mut stats = Loci::default();
        let mut found = Vec::new();
        scan_line(f, t0, t1, n, &mut stats, &mut found);
        found
    }

    #[test]
    fn locates_a_synthetic_jump_and_ignores_kinks_and_curvature() {
        // smooth curve with curvature, a kink at 0.3 and a jump of 1e-12 at 0.7123456789
        let at = 0.712_345_678_9;
        let f = |t: f64| -> Option<V3> {
            let kink = if t > 0.3 { 0.2 * (t - 0.3) } else { 0.0 };
            let jump = if t > at { 1e-12 } else { 0.0 };
            Some([t.sin() + kink + jump, (2.0 * t).cos(), 0.5 * t * t])
        };
        let found = run(&f, 0.0, 1.0, 10_000);
        assert!(!found.is_empty(), "the jump was not located");
        for (t, j) in &found {
            assert!((t - at).abs() < 1e-10, "located at {t}");
            assert!((j - 1e-12).abs() < 3e-13, "jump {j}");
        }
        // the same curve without the jump: nothing
        let g = |t: f64| -> Option<V3> {
            let kink = if t > 0.3 { 0.2 * (t - 0.3) } else { 0.0 };
            Some([t.sin() + kink, (2.0 * t).cos(), 0.5 * t * t])
        };
        assert!(run(&g, 0.0, 1.0, 10_000).is_empty());
    }

    #[test]
    fn locates_both_edges_of_a_snapped_band_from_a_logarithmic_ray() {
        // values within 1e-9 of zero are snapped onto zero: invisible from outside the band with uniform steps, entered by a
        // logarithmic ray out of the special value
        let f = |t: f64| -> Option<V3> {
            let x = t.exp();
            let y = if x.abs() < 1e-9 { 0.0 } else { x };
            Some([y, 1.0, 0.0])
        };
        let found = run(&f, (1e-14f64).ln(), (1.0f64).ln(), 20_000);
        assert!(found.iter().any(|(t, j)| (t.exp() - 1e-9).abs() < 1e-12 && *j > 5e-10), "{found:?}");
    }

    #[test]
    fn a_jump_beside_a_kink_is_still_located() {
        let f = |t: f64| -> Option<V3> {
            let kink = if t > 0.5 { 0.3 * (t - 0.5) } else { 0.0 };
            let jump = if t > 0.5 + 1.5e-8 { 4e-10 } else { 0.0 };
            Some([t + kink + jump, t * t, 0.0])
        };
        let found = run(&f, 0.0, 1.0, 12_000);
        assert!(found.iter().any(|(t, j)| (t - 0.5 - 1.5e-8).abs() < 1e-10 && (j - 4e-10).abs() < 1e-10), "{found:?}");
    }
}
