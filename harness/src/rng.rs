//! SplitMix64: every random choice of every monitor derives from (VERIF_SEED, property, worker)
//! through one of these streams, so a run is replayable from its seed.

#[derive(Clone)]
pub struct Rng(pub u64);

impl Rng {
    /// independent stream for (seed, label, worker)
    pub fn stream(seed: u64, label: &str, worker: u64) -> Rng {
        let mut h = seed ^ 0x5851_F42D_4C95_7F2D;
        for b in label.bytes() {
            h = (h ^ b as u64).wrapping_mul(0x0000_0100_0000_01B3);
        }
        let mut r = Rng(h ^ worker.wrapping_mul(0x9E37_79B9_7F4A_7C15));
        r.next();
        r.next();
        r
    }
    #[inline]
    pub fn next(&mut self) -> u64 {
        self.0 = self.0.wrapping_add(0x9E37_79B9_7F4A_7C15);
        let mut z = self.0;
        z = (z ^ (z >> 30)).wrapping_mul(0xBF58_476D_1CE4_E5B9);
        z = (z ^ (z >> 27)).wrapping_mul(0x94D0_49BB_1331_11EB);
        z ^ (z >> 31)
    }
    /// uniform in [0,1)
    #[inline]
    pub fn f(&mut self) -> f64 {
        (self.next() >> 11) as f64 / (1u64 << 53) as f64
    }
    /// uniform in [a,b)
    #[inline]
    pub fn range(&mut self, a: f64, b: f64) -> f64 {
        a + (b - a) * self.f()
    }
    #[inline]
    pub fn below(&mut self, n: u64) -> u64 {
        if n == 0 {
            0
        } else {
            self.next() % n
        }
    }
    #[inline]
    pub fn usize(&mut self, n: usize) -> usize {
        self.below(n as u64) as usize
    }
    #[inline]
    pub fn chance(&mut self, p: f64) -> bool {
        self.f() < p
    }
    #[inline]
    pub fn sign(&mut self) -> f64 {
        if self.next() & 1 == 0 {
            1.0
        } else {
            -1.0
        }
    }
    /// 10^-U(lo,hi)
    #[inline]
    pub fn log10(&mut self, lo: f64, hi: f64) -> f64 {
        10f64.powf(-self.range(lo, hi))
    }
    pub fn pick<'a, T>(&mut self, xs: &'a [T]) -> &'a T {
        &xs[self.usize(xs.len())]
    }
    pub fn shuffle<T>(&mut self, xs: &mut [T]) {
        for i in (1..xs.len()).rev() {
            let j = self.usize(i + 1);
            xs.swap(i, j);
        }
    }
}

/// 64-bit mix used to hash cases for the distinct-nontrivial sets
#[inline]
pub fn mix(mut h: u64, v: u64) -> u64 {
    h ^= v.wrapping_add(0x9E37_79B9_7F4A_7C15).wrapping_add(h << 6).wrapping_add(h >> 2);
    h = (h ^ (h >> 30)).wrapping_mul(0xBF58_476D_1CE4_E5B9);
    h ^ (h >> 31)
}
