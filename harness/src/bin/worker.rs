//! Sandboxed child for C14 (DESIGN §6 C14). The parent (`/verif/check`) starts it under RLIMIT_AS with a watchdog.
//!
//!   worker run --seed S --from A --to B --log FILE     executes hostile calls A..B of stream S; before every call it
//!                                                      appends `C <i> <call>` to FILE, after it `R <i> ok|err|panic ..`
//!                                                      and `V <i> <check> <message>` for every validity violation
//!   worker one --log FILE -- <call text>               the same for one explicit call (replay)
//!   worker scan FILE                                   summarises a log as JSON: counters, the open call if any, V lines
//!
//! The log is rotated every 20 000 calls (only its tail matters for attribution); counters travel in an `S` line.
use a5mon::calls::*;
use serde_json::{json, Map, Value};
use std::collections::BTreeMap;
use std::fs::{File, OpenOptions};
use std::io::Write;

#[derive(Default)]
struct Counters {
    issued: u64,
    returned: u64,
    per_fn: BTreeMap<String, [u64; 3]>, // ok, err, panic
    violations: Vec<Value>,
    violation_count: u64,
    panic_signatures: BTreeMap<String, u64>,
    /// hashes of the hostile calls issued by this incarnation (flushed to <log>.hashes)
    hostile_hashes: Vec<u64>,
}

impl Counters {
    fn to_json(&self) -> Value {
        let mut per = Map::new();
        for (k, v) in &self.per_fn {
            per.insert(k.clone(), json!({"ok": v[0], "err": v[1], "panic": v[2]}));
        }
        json!({"issued": self.issued, "returned": self.returned, "per_fn": per, "violations": self.violations, "violation_count": self.violation_count, "panic_signatures": self.panic_signatures})
    }
    fn from_json(v: &Value) -> Counters {
        let mut c = Counters { issued: v["issued"].as_u64().unwrap_or(0), returned: v["returned"].as_u64().unwrap_or(0), ..Default::default() };
        if let Some(m) = v["per_fn"].as_object() {
            for (k, x) in m {
                c.per_fn.insert(k.clone(), [x["ok"].as_u64().unwrap_or(0), x["err"].as_u64().unwrap_or(0), x["panic"].as_u64().unwrap_or(0)]);
            }
        }
        c.violations = v["violations"].as_array().cloned().unwrap_or_default();
        c.violation_count = v["violation_count"].as_u64().unwrap_or(0);
        if let Some(m) = v["panic_signatures"].as_object() {
            for (k, x) in m {
                c.panic_signatures.insert(k.clone(), x.as_u64().unwrap_or(0));
            }
        }
        c
    }
    fn returned(&mut self, name: &str, kind: &str) {
        self.returned += 1;
        let e = self.per_fn.entry(name.to_string()).or_insert([0; 3]);
        e[match kind {
            "ok" => 0,
            "err" => 1,
            _ => 2,
        }] += 1;
    }
    fn violation(&mut self, index: u64, call: &str, check: &str, message: &str) {
        self.violation_count += 1;
        if check == "C14.panic" {
            // signature: the panic message with digits squeezed
            let sig: String = message.chars().map(|c| if c.is_ascii_digit() { '#' } else { c }).collect();
            *self.panic_signatures.entry(sig.chars().take(160).collect()).or_insert(0) += 1;
        }
        let same = self.violations.iter().filter(|v| v["check"] == check).count();
        if self.violations.len() < 60 && same < 12 {
            self.violations.push(json!({"check": check, "case": {"index": index, "call": call}, "message": message}));
        }
    }
}

/// hostile by rule: a non-canonical id, a resolution outside -1..=29, or a coordinate outside the usual ranges
fn is_hostile(call: &Call) -> bool {
    use a5mon::model::is_canonical;
    let bad_res = |r: &i32| !(-1..=29).contains(r);
    match call {
        Call::Lookup { lon, lat, res } => bad_res(res) || lat.abs() > 90.0 || lon.abs() > 540.0,
        Call::CellToLonLat(id) | Call::GetResolution(id) | Call::U64ToHex(id) => !is_canonical(*id),
        Call::Boundary { id, .. } => !is_canonical(*id),
        Call::Parent { id, res } | Call::Children { id, res } => !is_canonical(*id) || res.as_ref().map(bad_res).unwrap_or(false),
        Call::NumCells(r) | Call::CellArea(r) => bad_res(r),
        Call::Compact(v) => v.iter().any(|i| !is_canonical(*i)),
        Call::Uncompact(v, r) => bad_res(r) || v.iter().any(|i| !is_canonical(*i)),
        Call::HexToU64(s) => u64::from_str_radix(s, 16).is_err(),
        _ => false,
    }
}

fn text_hash(s: &str) -> u64 {
    s.bytes().fold(0xcbf29ce484222325u64, |h, b| a5mon::rng::mix(h, b as u64))
}

fn one_call(log: &mut File, c: &mut Counters, index: u64, call: &Call) {
    let text = call.to_text();
    if is_hostile(call) {
        c.hostile_hashes.push(text_hash(&text));
    }
    log.write_all(format!("C {index} {text}\n").as_bytes()).expect("log write");
    c.issued += 1;
    let out = call.exec();
    let bad = validate(call, &out);
    let mut lines = format!("R {index} {}\n", out.short());
    for (check, msg) in &bad {
        lines.push_str(&format!("V {index} {check} {}\n", msg.replace('\n', " ")));
    }
    log.write_all(lines.as_bytes()).expect("log write");
    c.returned(call.name(), out.kind());
    for (check, msg) in &bad {
        c.violation(index, &text, check, msg);
    }
}

fn scan(path: &str) -> Value {
    let text = std::fs::read_to_string(path).unwrap_or_default();
    let mut c = Counters::default();
    let mut open: Option<(u64, String)> = None;
    for line in text.lines() {
        let mut it = line.splitn(3, ' ');
        let tag = it.next().unwrap_or("");
        match tag {
            "S" => {
                if let Ok(v) = serde_json::from_str::<Value>(&line[2..]) {
                    c = Counters::from_json(&v);
                }
            }
            "C" => {
                let i: u64 = it.next().and_then(|s| s.parse().ok()).unwrap_or(0);
                open = Some((i, it.next().unwrap_or("").to_string()));
                c.issued += 1;
            }
            "R" => {
                let kind = it.nth(1).unwrap_or("").split(' ').next().unwrap_or("").to_string();
                if let Some((_, call)) = &open {
                    let name = call.split(' ').next().unwrap_or("?").to_string();
                    c.returned(&name, &kind);
                }
                open = None;
            }
            "V" => {
                let i: u64 = it.next().and_then(|s| s.parse().ok()).unwrap_or(0);
                let rest = it.next().unwrap_or("");
                let (check, msg) = rest.split_once(' ').unwrap_or((rest, ""));
                // V lines follow the R line of the same call; the call text is no longer in `open`, recover it from the log
                let call = text.lines().rev().find(|l| l.starts_with(&format!("C {i} "))).map(|l| l.splitn(3, ' ').nth(2).unwrap_or("").to_string()).unwrap_or_default();
                c.violation(i, &call, check, msg);
            }
            _ => {}
        }
    }
    let mut v = c.to_json();
    v["open"] = match open {
        Some((i, call)) => json!({"index": i, "call": call}),
        None => Value::Null,
    };
    v
}

fn flush_hashes(path: &str, c: &mut Counters) {
    let mut f = OpenOptions::new().create(true).append(true).open(format!("{path}.hashes")).expect("open hashes");
    let mut buf = Vec::with_capacity(8 * c.hostile_hashes.len());
    for h in c.hostile_hashes.drain(..) {
        buf.extend_from_slice(&h.to_le_bytes());
    }
    f.write_all(&buf).expect("write hashes");
}

fn main() {
    let args: Vec<String> = std::env::args().collect();
    let get = |k: &str| args.iter().position(|a| a == k).and_then(|i| args.get(i + 1)).cloned();
    a5mon::orc::silence_panics();
    match args.get(1).map(|s| s.as_str()) {
        Some("scan") => {
            println!("{}", scan(&args[2]));
        }
        Some("count-distinct") => {
            let mut set: std::collections::HashSet<u64> = std::collections::HashSet::new();
            let mut total = 0u64;
            for p in &args[2..] {
                if let Ok(bytes) = std::fs::read(p) {
                    for ch in bytes.chunks_exact(8) {
                        set.insert(u64::from_le_bytes(ch.try_into().unwrap()));
                        total += 1;
                    }
                }
            }
            println!("{}", json!({"hostile_calls": total, "distinct_hostile_calls": set.len()}));
        }
        Some("one") => {
            let path = get("--log").expect("--log");
            let pos = args.iter().position(|a| a == "--").expect("-- <call>");
            let text = args[pos + 1..].join(" ");
            let call = Call::from_text(&text).expect("unparsable call");
            let mut log = OpenOptions::new().create(true).append(true).open(&path).expect("open log");
            let mut c = Counters::default();
            one_call(&mut log, &mut c, 0, &call);
            println!("{}", c.to_json());
        }
        Some("run") => {
            let seed: u64 = get("--seed").and_then(|s| s.parse().ok()).expect("--seed");
            let from: u64 = get("--from").and_then(|s| s.parse().ok()).expect("--from");
            let to: u64 = get("--to").and_then(|s| s.parse().ok()).expect("--to");
            let path = get("--log").expect("--log");
            // counters of earlier incarnations of this shard survive in the log's S line / tail
            let mut c = if std::path::Path::new(&path).exists() { Counters::from_json(&scan(&path)) } else { Counters::default() };
            let mut log = OpenOptions::new().create(true).write(true).truncate(true).open(&path).expect("open log");
            log.write_all(format!("S {}\n", c.to_json()).as_bytes()).unwrap();
            for i in from..to {
                let call = hostile_call(seed, i);
                one_call(&mut log, &mut c, i, &call);
                if (i - from) % 20_000 == 19_999 {
                    flush_hashes(&path, &mut c);
                    log.set_len(0).unwrap();
                    use std::io::Seek;
                    log.rewind().unwrap();
                    log.write_all(format!("S {}\n", c.to_json()).as_bytes()).unwrap();
                }
            }
            flush_hashes(&path, &mut c);
            std::fs::write(format!("{path}.summary"), c.to_json().to_string()).expect("write summary");
        }
        _ => {
            eprintln!("usage: worker run|one|scan ...");
            std::process::exit(2);
        }
    }
}
