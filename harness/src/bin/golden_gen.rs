//! Generates the frozen reference table for C06. Built WITHOUT the hooks feature against a worktree of the reference
//! release (v0.6.2, d731376) - see golden/README.md. Never run by a check.
//!
//!   golden_gen <out-dir> [seed] [scale]
use a5mon::gen::{self, Frame};
use a5mon::geom::*;
use a5mon::model::*;
use a5mon::orc::*;
use a5mon::rng::Rng;
use std::fmt::Write as _;

fn hx(x: f64) -> String {
    format!("{:016x}", x.to_bits())
}

fn main() {
    let args: Vec<String> = std::env::args().collect();
    let out = args.get(1).expect("usage: golden_gen <out-dir> [seed]");
    let seed: u64 = args.get(2).and_then(|s| s.parse().ok()).unwrap_or(20260101);
    // scale > 1 multiplies the number of random curve positions per quintant and of uniform / hostile points per resolution
    // (used by the thorough tier of C06, which records a fresh, seed-dependent table from the reference release at run time)
    let scale: u64 = args.get(3).and_then(|s| s.parse().ok()).unwrap_or(1).max(1);
    silence_panics();
    let fr = Frame::new();
    let mut rng = Rng::stream(seed, "golden", 0);
    let mut lookups = String::from("# C06 golden lookups of the reference release v0.6.2 (d731376)\n# L <lon bits> <lat bits> <res> <id> <class> <reference signed distance, rad>\n");
    let mut geometry = String::from("# C06 golden geometry of the reference release v0.6.2 (d731376)\n# G <id> <centre lon bits> <centre lat bits> <n corners> <lon bits lat bits>...\n");
    let (mut nl, mut ng, mut rej_l, mut rej_g) = (0u32, 0u32, 0u32, 0u32);

    let add_lookup = |lookups: &mut String, lon: f64, lat: f64, res: i32, class: &str, nl: &mut u32, rej: &mut u32| {
        let Ok(id) = lookup(lon, lat, res) else {
            *rej += 1;
            return;
        };
        let Some(c) = decode(id) else {
            *rej += 1;
            return;
        };
        if c.res != res {
            *rej += 1;
            return;
        }
        let l = cell_size(res);
        match o1(c, lon, lat) {
            // admitted only where the reference's answer contained the point, away from the rounding band of the edge
            Ok(d) if d <= -(1e-11f64).max(1e-3 * l) => {
                writeln!(lookups, "L {} {} {} {:016x} {} {:e}", hx(lon), hx(lat), res, id, class, d).unwrap();
                *nl += 1;
            }
            _ => *rej += 1,
        }
    };
    let add_geometry = |geometry: &mut String, c: MCell, ng: &mut u32, rej: &mut u32| {
        let id = encode(c);
        let Ok(centre) = flatten(guard(|| a5::cell_to_lonlat(id))) else {
            *rej += 1;
            return;
        };
        let Ok(corners) = flatten(guard(|| a5::cell_to_boundary(id, Some(a5::core::cell::CellToBoundaryOptions { closed_ring: false, segments: Some(1) })))) else {
            *rej += 1;
            return;
        };
        // self-consistency of the reference's own output: forward(reported point) must hit the planar source point
        let Ok(poly) = cell_polygon(c) else {
            *rej += 1;
            return;
        };
        let n = poly.len() as f64;
        let pc = poly.iter().fold([0.0, 0.0], |a, p| [a[0] + p[0] / n, a[1] + p[1] / n]);
        let ok_centre = project(centre.longitude(), centre.latitude(), c.face).map(|q| ((q[0] - pc[0]).powi(2) + (q[1] - pc[1]).powi(2)).sqrt() <= 1e-12).unwrap_or(false);
        let ok_corners = corners.len() == poly.len()
            && corners.iter().all(|k| {
                project(k.longitude(), k.latitude(), c.face)
                    .map(|q| poly.iter().map(|p| ((q[0] - p[0]).powi(2) + (q[1] - p[1]).powi(2)).sqrt()).fold(f64::INFINITY, f64::min) <= 1e-12)
                    .unwrap_or(false)
            });
        if !(ok_centre && ok_corners) {
            *rej += 1;
            return;
        }
        write!(geometry, "G {:016x} {} {} {}", id, hx(centre.longitude()), hx(centre.latitude()), corners.len()).unwrap();
        for k in &corners {
            write!(geometry, " {} {}", hx(k.longitude()), hx(k.latitude())).unwrap();
        }
        geometry.push('\n');
        *ng += 1;
    };

    // `golden_gen <out> <seed> <scale> limits`: only the deterministic corpus of inputs at the limits of the valid domain (exact
    // poles, the antimeridian written both ways, longitudes whole turns away, signed zeros, the smallest magnitudes a double can
    // hold) - recorded separately into golden/limits
    if args.get(4).map(|s| s == "limits").unwrap_or(false) {
        let tiny = [0.0, -0.0, 5e-324, -5e-324, 1e-310, 1e-300, -1e-300, 2.2250738585072014e-308, 1e-200, 1e-100, 1e-30, 1e-15];
        let mut pts: Vec<(f64, f64, &str)> = Vec::new();
        for k in 0..72 {
            let lon = -180.0 + 5.0 * k as f64;
            pts.push((lon, 90.0, "pole_exact"));
            pts.push((lon, -90.0, "pole_exact"));
            pts.push((lon, 89.999_999_999_999_99, "pole_minus_ulp"));
            pts.push((lon, -89.999_999_999_999_99, "pole_minus_ulp"));
        }
        for j in -35..=35 {
            let lat = 2.5 * j as f64;
            for lon in [180.0, -180.0, 179.999_999_999_999_97, -179.999_999_999_999_97, 540.0, -540.0, 360.0, -360.0, 0.0, -0.0, 720.0 + 12.0, -1080.0 + 12.0, 360_000.0 + 12.0] {
                pts.push((lon, lat, "special_longitude"));
            }
        }
        for a in tiny {
            for b in tiny {
                pts.push((a, b, "tiny"));
            }
            for lon in [-93.0, 87.0, 15.0, -135.5] {
                pts.push((lon, a, "tiny_latitude"));
                pts.push((a, lon.clamp(-89.0, 89.0), "tiny_longitude"));
            }
        }
        for res in 0..=29 {
            for (lon, lat, class) in &pts {
                add_lookup(&mut lookups, *lon, *lat, res, class, &mut nl, &mut rej_l);
                if res % 3 == 0 {
                    if let Some(c) = lookup(*lon, *lat, res).ok().and_then(decode) {
                        add_geometry(&mut geometry, c, &mut ng, &mut rej_g);
                    }
                }
            }
        }
        std::fs::write(format!("{out}/lookups.tsv"), lookups).expect("write lookups");
        std::fs::write(format!("{out}/geometry.tsv"), geometry).expect("write geometry");
        println!("golden limits: {nl} lookup records ({rej_l} not admitted), {ng} geometry records ({rej_g} not admitted)");
        return;
    }

    for res in 0..=29 {
        // every face x quintant, curve positions: first, last, quarters, digit patterns, random
        for f in 0..12u8 {
            for q in 0..5u8 {
                if res == 0 && q > 0 {
                    continue;
                }
                let digits = (res - 1).max(0) as u32;
                let max = if digits == 0 { 0 } else { (1u64 << (2 * digits)) - 1 };
                let mut positions: Vec<u64> = vec![0, max, max / 4, max / 2, max / 4 * 3];
                for pat in ["all1", "all2", "alt", "single"] {
                    positions.push(gen::s_pattern(&mut rng, digits, pat));
                }
                for _ in 0..(3 * scale) {
                    positions.push(gen::s_pattern(&mut rng, digits, "random"));
                }
                positions.sort_unstable();
                positions.dedup();
                for s in positions {
                    let c = MCell::new(res, f, q, s);
                    add_geometry(&mut geometry, c, &mut ng, &mut rej_g);
                    // an interior point of this cell: its centre moved by up to 0.2 cell sizes
                    if let Ok(cu) = centre_unit(encode(c)) {
                        let eps = rng.f() * 0.2 * cell_size(res);
                        let p = gen::nudge(&mut rng, cu, eps);
                        let (lon, lat) = lonlat_from_unit(p);
                        add_lookup(&mut lookups, lon, lat, res, "quintant", &mut nl, &mut rej_l);
                    }
                }
            }
        }
        // uniform and hostile classes
        for i in 0..(700 * scale) {
            let class = if i % 2 == 0 { "uniform" } else { *rng.pick(&gen::POINT_CLASSES) };
            let (lon, lat) = gen::point(&mut rng, &fr, class);
            let lon = if i % 50 == 7 { gen::wrap(&mut rng, lon) } else { lon };
            add_lookup(&mut lookups, lon, lat, res, class, &mut nl, &mut rej_l);
            if i % 7 == 0 {
                if let Some(c) = lookup(lon, lat, res).ok().and_then(decode) {
                    add_geometry(&mut geometry, c, &mut ng, &mut rej_g);
                }
            }
        }
    }
    std::fs::write(format!("{out}/lookups.tsv"), lookups).expect("write lookups");
    std::fs::write(format!("{out}/geometry.tsv"), geometry).expect("write geometry");
    println!("golden: {nl} lookup records ({rej_l} not admitted), {ng} geometry records ({rej_g} not admitted), seed {seed}");
}
