//! `a5mon <PROPERTY> --tier quick|thorough --seed N --out FILE`  runs one monitor and writes its observations as JSON
//! `a5mon replay <FILE>`                                       re-executes one recorded violation against the current tree
use a5mon::{mon, report::Run, Ctx, Tier};
use serde_json::{json, Value};
use std::path::PathBuf;
use std::time::Instant;

fn main() {
    let args: Vec<String> = std::env::args().collect();
    if args.len() < 2 {
        eprintln!("usage: a5mon <PROPERTY>|replay ...");
        std::process::exit(2);
    }
    let root = PathBuf::from(std::env::var("VERIF_ROOT").unwrap_or_else(|_| "/verif".to_string()));
    if args[1] == "c13-table" {
        mon::c13::print_table(args[2].parse().expect("seed"));
        return;
    }
    if args[1] == "c13-first-touch" {
        mon::c13::first_touch(args[2].parse().expect("seed"), args[3].parse().expect("round"));
        return;
    }
    if args[1] == "loci" {
        // a5mon loci <seed> <quick|thorough>: the discontinuity scan on its own
        a5mon::orc::silence_panics();
        a5mon::loci::configure(args.get(2).and_then(|s| s.parse().ok()).unwrap_or(1), args.get(3).map(|s| s != "thorough").unwrap_or(true));
        let t0 = std::time::Instant::now();
        let l = a5mon::loci::discovered();
        println!("{:?} in {:.1}s", a5mon::loci::counters(), t0.elapsed().as_secs_f64());
        for p in l.points.iter().take(40) {
            println!("{} face {} q {:?} r {:.6e} jump {:.3e}", p.map, p.face, p.q, (p.q[0] * p.q[0] + p.q[1] * p.q[1]).sqrt(), p.jump);
        }
        return;
    }
    if args[1] == "replay" {
        let text = std::fs::read_to_string(&args[2]).expect("cannot read replay file");
        let v: Value = serde_json::from_str(&text).expect("replay file is not JSON");
        let check = v["check"].as_str().expect("replay file has no check");
        a5mon::orc::silence_panics();
        let mut run = Run::new();
        let mut handled = false;
        for m in mon::all() {
            if (m.replay)(check, &v["case"], &mut run).is_some() {
                handled = true;
                break;
            }
        }
        if !handled {
            eprintln!("no monitor knows how to replay check {check}");
            std::process::exit(2);
        }
        for viol in &run.violations {
            println!("REPRODUCED {} : {}", viol["check"].as_str().unwrap_or("?"), viol["message"].as_str().unwrap_or("?"));
        }
        if run.violation_count == 0 {
            println!("NOT REPRODUCED: the recorded case passes on the current tree");
            std::process::exit(0);
        }
        std::process::exit(1);
    }
    let prop = args[1].clone();
    let mut tier = Tier::Quick;
    let mut seed: u64 = std::env::var("VERIF_SEED").ok().and_then(|s| s.parse().ok()).unwrap_or(1);
    let mut out: Option<String> = None;
    let mut i = 2;
    while i < args.len() {
        match args[i].as_str() {
            "--tier" => {
                tier = if args[i + 1] == "thorough" { Tier::Thorough } else { Tier::Quick };
                i += 1;
            }
            "--seed" => {
                seed = args[i + 1].parse().expect("bad seed");
                i += 1;
            }
            "--out" => {
                out = Some(args[i + 1].clone());
                i += 1;
            }
            other => {
                eprintln!("unknown argument {other}");
                std::process::exit(2);
            }
        }
        i += 1;
    }
    let ctx = Ctx { tier, seed, threads: a5mon::report::n_threads(), root };
    let m = match mon::all().into_iter().find(|m| m.id == prop) {
        Some(m) => m,
        None => {
            eprintln!("unknown property {prop}");
            std::process::exit(2);
        }
    };
    // process-level history: for odd seeds the very first library call of a monitor process is a foreign one - the generic
    // polyhedral projection with an octant triangle, as the repository's own tests use it. Nothing a later call returns may
    // depend on it (a process-wide lazily initialised value captured from the first caller would).
    if seed % 2 == 1 {
        a5mon::orc::silence_panics();
        let _ = a5mon::calls::Call::GenericInverse { x: 0.3, y: 0.3 }.exec();
    }
    let t0 = Instant::now();
    // the geometric properties first look for discontinuities of the projection on the tree as it is (module `loci`) and
    // place a share of their hostile points on whatever is found
    let with_loci = ["C01", "C02", "C03", "C04", "C11", "C12", "C15", "C16"].contains(&m.id);
    if with_loci {
        a5mon::orc::silence_panics();
        a5mon::loci::enable(seed, tier == Tier::Quick);
    }
    let mut run = (m.run)(&ctx);
    if with_loci {
        for (k, n) in a5mon::loci::counters() {
            run.countn(&k, n);
        }
        run.note(format!(
            "discontinuity scan: forward and inverse face projection along rays out of all 11 triangle corners (logarithmic steps from 1e-13) and random chords on all 12 faces; jumps above {:.0e} rad are located and visited by the point generators",
            a5mon::loci::MIN_JUMP
        ));
    }
    let wall = t0.elapsed().as_secs_f64();
    let mut v = run.to_json();
    v["property_id"] = json!(m.id);
    v["rule"] = json!(m.rule);
    v["tier"] = json!(if tier == Tier::Quick { "quick" } else { "thorough" });
    v["seed"] = json!(seed);
    v["wall_s"] = json!(wall);
    v["threads"] = json!(ctx.threads);
    let text = serde_json::to_string_pretty(&v).unwrap();
    match out {
        Some(p) => std::fs::write(p, text).expect("cannot write output"),
        None => println!("{text}"),
    }
    eprintln!(
        "a5mon {} {:?} seed {}: {} evaluations, {} distinct non-trivial, {} violations, {} inconclusive, {:.1}s",
        m.id,
        tier,
        seed,
        run.evaluations,
        run.nontrivial.len(),
        run.violation_count,
        run.inconclusive.len(),
        wall
    );
}
