//! Seeded hostile workload generators (DESIGN §5). Geometry of the dodecahedron frame is re-derived here from
//! the documented orientation (north-pole face, rings at colatitude atan 2, longitude offset 93 deg), not read
//! from the library.

use crate::geom::*;
use crate::model::*;
use crate::rng::Rng;

pub const POINT_CLASSES: [&str; 11] = ["uniform", "polar", "antimeridian", "seam", "dvertex", "fcentre", "tseam", "edgemid", "switch", "diagonal", "axes"];

/// angular distances from a corner of the projection's triangles at which the inverse projection switches between a
/// series and a closed form (read off the code: safe_acos at x = 1e-3, i.e. 2e-3 rad; vector_difference at 1e-8, i.e.
/// 2e-8 rad; slerp at 1e-12 rad): cells straddling these rings are where a wrong series coefficient would show
pub const SWITCH_RADII: [f64; 3] = [2e-3, 2e-8, 1e-12];

pub struct Frame {
    /// 12 face centres, geographic frame (unit vectors); order: north, upper ring k=0..4, lower ring k=0..4, south
    pub centres: Vec<V3>,
    /// 30 adjacent pairs (i < j)
    pub edges: Vec<(usize, usize)>,
    /// 20 dodecahedron vertices
    pub vertices: Vec<V3>,
    /// for each face the 5 adjacent faces
    pub neighbours: Vec<Vec<usize>>,
}

impl Frame {
    pub fn new() -> Frame {
        let a = 2f64.atan(); // 63.4349 deg
        let mut centres = vec![[0.0, 0.0, 1.0]];
        for k in 0..5 {
            let l = (-93.0 + 72.0 * k as f64).to_radians();
            centres.push([a.sin() * l.cos(), a.sin() * l.sin(), a.cos()]);
        }
        for k in 0..5 {
            let l = (-93.0 + 36.0 + 72.0 * k as f64).to_radians();
            centres.push([a.sin() * l.cos(), a.sin() * l.sin(), -a.cos()]);
        }
        centres.push([0.0, 0.0, -1.0]);
        let mut edges = Vec::new();
        let mut neighbours = vec![Vec::new(); 12];
        for i in 0..12 {
            for j in 0..12 {
                if i != j && (angle(centres[i], centres[j]) - a).abs() < 1e-9 {
                    neighbours[i].push(j);
                    if i < j {
                        edges.push((i, j));
                    }
                }
            }
        }
        assert_eq!(edges.len(), 30);
        let mut vertices = Vec::new();
        for i in 0..12 {
            for &j in &neighbours[i] {
                for &k in &neighbours[i] {
                    if i < j && j < k && neighbours[j].contains(&k) {
                        vertices.push(normalize(add(add(centres[i], centres[j]), centres[k])));
                    }
                }
            }
        }
        assert_eq!(vertices.len(), 20);
        Frame { centres, edges, vertices, neighbours }
    }

    pub fn nearest_two(&self, p: V3) -> ((usize, f64), (usize, f64)) {
        let mut best = (0usize, f64::INFINITY);
        let mut second = (0usize, f64::INFINITY);
        for (i, c) in self.centres.iter().enumerate() {
            let d = angle(p, *c);
            if d < best.1 {
                second = best;
                best = (i, d);
            } else if d < second.1 {
                second = (i, d);
            }
        }
        (best, second)
    }
}

impl Default for Frame {
    fn default() -> Self {
        Self::new()
    }
}

pub fn uniform_dir(rng: &mut Rng) -> V3 {
    let z = rng.range(-1.0, 1.0);
    let l = rng.range(-std::f64::consts::PI, std::f64::consts::PI);
    let r = (1.0 - z * z).max(0.0).sqrt();
    [r * l.cos(), r * l.sin(), z]
}

/// small random tangent offset of angular size eps at p
pub fn nudge(rng: &mut Rng, p: V3, eps: f64) -> V3 {
    let (e1, e2) = tangent_basis(p);
    let t = rng.range(0.0, std::f64::consts::TAU);
    normalize(add(p, add(scale(e1, eps * t.cos()), scale(e2, eps * t.sin()))))
}

/// point at exact angular distance r from c in a random direction, as lon/lat
pub fn nudge_exact(rng: &mut Rng, c: V3, r: f64) -> (f64, f64) {
    let (e1, e2) = tangent_basis(c);
    let t = rng.range(0.0, std::f64::consts::TAU);
    let dir = add(scale(e1, t.cos()), scale(e2, t.sin()));
    lonlat_from_unit(add(scale(c, r.cos()), scale(dir, r.sin())))
}

/// log-distributed offset in [1e-16, 1e-1] rad, sometimes exactly 0
pub fn log_eps(rng: &mut Rng) -> f64 {
    if rng.chance(0.08) {
        0.0
    } else {
        rng.log10(1.0, 16.0)
    }
}

/// A point of the given class as (lon, lat) in degrees.
pub fn point(rng: &mut Rng, fr: &Frame, class: &str) -> (f64, f64) {
    // discontinuities of the projection located at run time (module `loci`; none on the unchanged tree) take a share of every class
    if let Some(ll) = crate::loci::substitute(rng) {
        return ll;
    }
    match class {
        "uniform" => lonlat_from_unit(uniform_dir(rng)),
        "polar" => {
            // any meridian; a third of the time on / next to the meridians where a longitude representation has its seam: the
            // antimeridian, the library's internal zero (93 W) and its opposite (87 E), 0 and +-90
            let lon = if rng.chance(0.33) {
                let eps = if rng.chance(0.2) { 0.0 } else { rng.log10(0.0, 14.0) * 10.0 * rng.sign() };
                *rng.pick(&[180.0, -180.0, -93.0, 87.0, 0.0, 90.0, -90.0]) + eps
            } else {
                rng.range(-180.0, 180.0)
            };
            if rng.chance(0.1) {
                return (lon, 90.0 * rng.sign());
            }
            let colat = rng.log10(0.0, 14.0) * 12.0;
            (lon, (90.0 - colat) * rng.sign())
        }
        "antimeridian" => {
            let d = if rng.chance(0.1) { 0.0 } else { rng.log10(0.0, 15.0) * 5.0 };
            let lon = if rng.chance(0.5) { 180.0 - d } else { -180.0 + d };
            let lat = rng.range(-1.0f64, 1.0).asin().to_degrees();
            (lon, lat)
        }
        "seam" => {
            let (i, j) = *rng.pick(&fr.edges);
            let (ci, cj) = (fr.centres[i], fr.centres[j]);
            let m = normalize(add(ci, cj));
            let d = normalize(cross(ci, cj));
            let n = normalize(sub(ci, cj));
            // along the whole seam great circle near the shared edge (half edge = 0.3649 rad) and a bit beyond
            let t = rng.range(-0.40, 0.40);
            let on = add(scale(m, t.cos()), scale(d, t.sin()));
            let eps = log_eps(rng) * rng.sign();
            lonlat_from_unit(normalize(add(on, scale(n, eps))))
        }
        "dvertex" => {
            let v = *rng.pick(&fr.vertices);
            let eps = log_eps(rng);
            lonlat_from_unit(nudge(rng, v, eps))
        }
        "fcentre" => {
            let c = *rng.pick(&fr.centres);
            let eps = log_eps(rng);
            lonlat_from_unit(nudge(rng, c, eps))
        }
        "tseam" => {
            // the 10 internal seams of a face: great circles from the face centre to its 5 vertices and 5 edge midpoints
            let i = rng.usize(12);
            let c = fr.centres[i];
            let j = *rng.pick(&fr.neighbours[i]);
            let target = if rng.chance(0.5) {
                normalize(add(c, fr.centres[j]))
            } else {
                // a vertex shared with neighbour j
                let k = *fr.neighbours[i].iter().find(|&&k| k != j && fr.neighbours[j].contains(&k)).unwrap();
                normalize(add(add(c, fr.centres[j]), fr.centres[k]))
            };
            let dir = normalize(sub(target, scale(c, dot(target, c))));
            let side = cross(c, dir);
            let t = rng.range(0.0, 0.70);
            let on = add(scale(c, t.cos()), scale(dir, t.sin()));
            let eps = log_eps(rng) * rng.sign();
            lonlat_from_unit(normalize(add(on, scale(side, eps))))
        }
        "switch" => {
            // on / next to a ring of radius SWITCH_RADII around a face centre, an edge midpoint or a dodecahedron vertex
            let c = match rng.below(3) {
                0 => *rng.pick(&fr.centres),
                1 => {
                    let (i, j) = *rng.pick(&fr.edges);
                    normalize(add(fr.centres[i], fr.centres[j]))
                }
                _ => *rng.pick(&fr.vertices),
            };
            let r0 = if rng.chance(0.7) { SWITCH_RADII[0] } else { *rng.pick(&SWITCH_RADII) };
            let delta = if rng.chance(0.1) { 0.0 } else { rng.log10(1.0, 9.0) * rng.sign() };
            nudge_exact(rng, c, r0 * (1.0 + delta))
        }
        "axes" => {
            // on / next to the special coordinate values: the equator, the meridians 0, +-90, +-180 (loci that mean nothing to
            // the grid but are where clean-up code for zeros and quadrant boundaries lives)
            // offsets: exactly zero (of either sign), the smallest magnitudes a double can hold, or 1e-15 .. 1 degrees
            let eps = match rng.below(12) {
                0 => 0.0,
                1 => *rng.pick(&[5e-324, 1e-310, 1e-300, 2.2250738585072014e-308, 1e-200, 1e-100, 1e-30]),
                _ => rng.log10(0.0, 15.0),
            } * rng.sign();
            if rng.chance(0.5) {
                (rng.range(-180.0, 180.0), eps)
            } else {
                (90.0 * (rng.below(5) as f64 - 2.0) + eps, rng.range(-1.0f64, 1.0).asin().to_degrees())
            }
        }
        "diagonal" => {
            // coordinates with a simple bitwise relation between longitude and latitude (equal, opposite, halves, integers):
            // distinct physical points that collide under careless hashing / keying of a coordinate pair
            let lat = if rng.chance(0.3) { (rng.range(-90.0, 90.0) as f64).round() } else { rng.range(-90.0, 90.0) };
            match rng.below(4) {
                0 => (lat, lat),
                1 => (-lat, lat),
                2 => (2.0 * lat, lat),
                _ => (lat, lat / 2.0),
            }
        }
        "edgemid" => {
            let (i, j) = *rng.pick(&fr.edges);
            let m = normalize(add(fr.centres[i], fr.centres[j]));
            let eps = log_eps(rng);
            lonlat_from_unit(nudge(rng, m, eps))
        }
        _ => panic!("unknown point class {class}"),
    }
}

pub const WRAPS: [f64; 8] = [360.0, -360.0, 720.0, -720.0, 1080.0, -1080.0, 360000.0, -360000.0];

/// the same physical point with the longitude shifted by a multiple of 360 (exactly representable shifts)
pub fn wrap(rng: &mut Rng, lon: f64) -> f64 {
    lon + *rng.pick(&WRAPS)
}

// ------------------------------------------------------------------------------------------------
// cells

pub const S_PATTERNS: [&str; 9] = ["zero", "max", "all1", "all2", "all3", "alt", "single", "low", "random"];

/// a curve position of `digits` base-4 digits following a named pattern
pub fn s_pattern(rng: &mut Rng, digits: u32, pattern: &str) -> u64 {
    if digits == 0 {
        return 0;
    }
    let rep = |d: u64| -> u64 {
        let mut s = 0u64;
        for _ in 0..digits {
            s = (s << 2) | d;
        }
        s
    };
    let max = if digits >= 32 { u64::MAX } else { (1u64 << (2 * digits)) - 1 };
    match pattern {
        "zero" => 0,
        "max" => max,
        "all1" => rep(1),
        "all2" => rep(2),
        "all3" => rep(3),
        "alt" => {
            let (a, b) = (rng.below(4), rng.below(4));
            let mut s = 0u64;
            for i in 0..digits {
                s = (s << 2) | if i % 2 == 0 { a } else { b };
            }
            s
        }
        "single" => (1 + rng.below(3)) << (2 * rng.below(digits as u64)),
        "low" => rng.below(16.min(max) + 1).min(max),
        _ => rng.next() & max,
    }
}

pub fn random_cell(rng: &mut Rng, res: i32) -> MCell {
    let face = rng.below(12) as u8;
    let q = rng.below(5) as u8;
    let pat = *rng.pick(&S_PATTERNS);
    let s = if res >= 2 { s_pattern(rng, (res - 1) as u32, pat) } else { 0 };
    MCell::new(res, face, q, s)
}

/// resolution drawn so that every resolution 0..=29 is hit, with extra weight on the extremes
pub fn random_res(rng: &mut Rng) -> i32 {
    if let Some(r) = crate::loci::take_hint_res(rng) {
        return r;
    }
    match rng.below(10) {
        0 => *rng.pick(&[0, 1, 2, 3]),
        1 => *rng.pick(&[26, 27, 28, 29]),
        _ => rng.below(30) as i32,
    }
}

// ------------------------------------------------------------------------------------------------
// cell sets for compaction

/// grow an antichain below `root` by recursive subdivision (depth levels), deleting subtrees with probability pdel
pub fn antichain(rng: &mut Rng, root: MCell, depth: u32, psplit: f64, pdel: f64, out: &mut Vec<MCell>) {
    if out.len() > 6000 {
        out.push(root);
        return;
    }
    if depth == 0 || root.res >= MAX_RES || !rng.chance(psplit) {
        out.push(root);
        return;
    }
    for k in children_at(root, root.res + 1) {
        if rng.chance(pdel) {
            continue;
        }
        antichain(rng, k, depth - 1, psplit, pdel, out);
    }
}

pub fn random_root(rng: &mut Rng) -> MCell {
    match rng.below(10) {
        0 => WORLD,
        1 | 2 => MCell::new(0, rng.below(12) as u8, 0, 0),
        3 | 4 => MCell::new(1, rng.below(12) as u8, rng.below(5) as u8, 0),
        5 => {
            let r = 2 + rng.below(3) as i32;
            random_cell(rng, r)
        }
        _ => {
            let r = 2 + rng.below(26) as i32;
            random_cell(rng, r)
        }
    }
}

/// a cell set of the given flavour; "antichain*" flavours are non-overlapping
/// stratum label for the length of a list argument
pub fn len_bucket(n: usize) -> &'static str {
    match n {
        0 => "0",
        1 => "1",
        2..=7 => "2-7",
        8..=63 => "8-63",
        64..=511 => "64-511",
        512..=4095 => "512-4095",
        4096..=32767 => "4096-32767",
        _ => "32768+",
    }
}

pub fn cell_set(rng: &mut Rng, flavour: &str) -> Vec<MCell> {
    let mut out = Vec::new();
    match flavour {
        "antichain" => {
            let root = random_root(rng);
            let (ps, pd) = (rng.range(0.5, 1.0), rng.range(0.0, 0.3));
            let depth = 1 + rng.below(4) as u32;
            antichain(rng, root, depth, ps, pd, &mut out);
        }
        "complete" => {
            // complete subdivisions: must compact all the way back to the root
            let root = random_root(rng);
            let depth = 1 + rng.below(3) as u32;
            let ps = rng.range(0.6, 1.0);
            antichain(rng, root, depth, ps, 0.0, &mut out);
        }
        "multiroot" => {
            // 2-5 antichains under distinct, mutually non-overlapping roots (distinct faces)
            let mut faces: Vec<u8> = (0..12).collect();
            rng.shuffle(&mut faces);
            let n = 2 + rng.usize(4);
            for &f in faces.iter().take(n) {
                let root = match rng.below(3) {
                    0 => MCell::new(0, f, 0, 0),
                    1 => MCell::new(1, f, rng.below(5) as u8, 0),
                    _ => {
                        let r = 2 + rng.below(5) as i32;
                        let q = rng.below(5) as u8;
                        MCell::new(r, f, q, s_pattern(rng, (r - 1) as u32, "random"))
                    }
                };
                let (ps, pd) = (rng.range(0.5, 1.0), rng.range(0.0, 0.2));
                let depth = 1 + rng.below(3) as u32;
                antichain(rng, root, depth, ps, pd, &mut out);
            }
        }
        "lowres" => {
            // mixtures of base cells, quintants and res-2/3 cells on several faces: the region where numeric id
            // order and hierarchy order disagree; groups that complete only after earlier merges
            for f in 0..12u8 {
                match rng.below(5) {
                    0 => {}
                    1 => out.push(MCell::new(0, f, 0, 0)),
                    2 => {
                        for q in 0..5u8 {
                            if rng.chance(0.9) {
                                out.push(MCell::new(1, f, q, 0));
                            }
                        }
                    }
                    _ => {
                        for q in 0..5u8 {
                            match rng.below(4) {
                                0 => out.push(MCell::new(1, f, q, 0)),
                                1 => {
                                    for s in 0..4u64 {
                                        if rng.chance(0.95) {
                                            out.push(MCell::new(2, f, q, s));
                                        }
                                    }
                                }
                                2 => {
                                    for s in 0..16u64 {
                                        if rng.chance(0.98) {
                                            out.push(MCell::new(3, f, q, s));
                                        }
                                    }
                                }
                                _ => {}
                            }
                        }
                    }
                }
            }
            if out.is_empty() {
                out.push(WORLD);
            }
        }
        "lookalike" => {
            // same-resolution cells equally spaced in id space by the stride of ANOTHER level (every 4th / 16th cell, the
            // same position in consecutive quintants or faces): they look like a sibling group to a stride-based check
            // that uses the wrong stride, but are not one. Optionally padded with unrelated cells.
            let span = if rng.chance(0.3) { 28 } else { 10 };
            let res = 2 + rng.below(span) as i32;
            let c = random_cell(rng, res);
            // the progression starts at a first child half of the time, at any child otherwise
            let w = encode(MCell::new(res, c.face, c.q, if rng.chance(0.5) { c.s & !3 } else { c.s }));
            let other = match rng.below(3) {
                0 => 58,                                               // top-6-bit stride: same position, next quintant
                1 => marker_bit((res - 1 - rng.below(2) as i32).max(2)) + 1, // a coarser Hilbert level
                _ => marker_bit((res + 1).min(MAX_RES)) + 1,           // a finer level (not a cell stride at this resolution)
            };
            let n = *rng.pick(&[4u64, 4, 5, 12]);
            for j in 0..n {
                if let Some(x) = w.checked_add(j << other) {
                    if let Some(k) = decode(x) {
                        if k.res == res {
                            out.push(k);
                        }
                    }
                }
            }
            if rng.chance(0.5) && res >= 3 {
                // a coarser cell directly before the progression in id order (the cell just before the first one's parent)
                if let Some(first) = out.first().copied() {
                    let p = parent_at(first, res - 1).unwrap();
                    if p.s > 0 {
                        out.push(MCell::new(p.res, p.face, p.q, p.s - 1));
                    }
                }
            }
            if rng.chance(0.5) {
                let prog: Vec<MCell> = out.clone();
                let mut extra = Vec::new();
                let root = random_root(rng);
                antichain(rng, root, 2, 0.8, 0.2, &mut extra);
                // keep the whole set non-overlapping: drop extras that overlap a cell of the progression
                for e in extra {
                    let clash = prog.iter().any(|p| {
                        let r = e.res.max(p.res).max(1);
                        let (a, b) = (leaf_interval(e, r), leaf_interval(*p, r));
                        a.0 < b.1 && b.0 < a.1
                    });
                    if !clash {
                        out.push(e);
                    }
                }
            }
            out.sort();
            out.dedup();
        }
        "ends" => {
            // pairs that are neighbours in id order but far apart in the tree: the last cell of a quintant and the first of the
            // next, the last cell of a face and the first of the next face, the very first and the very last cell of a
            // resolution - together with a few ordinary cells. Nothing here forms a sibling group.
            let res = 2 + rng.below(28) as i32;
            let last_s = (1u64 << (2 * (res - 1))) - 1;
            for _ in 0..1 + rng.below(4) {
                let k = rng.below(60) as u8;
                let (f, q) = (k / 5, k % 5);
                out.push(MCell::new(res, f, q, last_s));
                let n = (k + 1) % 60;
                out.push(MCell::new(res, n / 5, n % 5, 0));
                if rng.chance(0.5) {
                    out.push(MCell::new(res, f, q, last_s - 1 - rng.below(3)));
                    out.push(MCell::new(res, n / 5, n % 5, 1 + rng.below(3)));
                }
            }
            if rng.chance(0.3) {
                out.push(MCell::new(res, 0, 0, 0));
                out.push(MCell::new(res, 11, 4, last_s));
            }
            for _ in 0..rng.below(4) {
                out.push(random_cell(rng, res));
            }
            out.sort();
            out.dedup();
        }
        "sized" => {
            // a run of consecutive same-resolution cells (optionally thinned) whose LENGTH sits on a power-of-two boundary or is
            // simply large: what a fast path for long lists, a chunked loop or a narrow length counter has to survive
            const SMALL: [usize; 30] = [1, 2, 3, 4, 5, 7, 8, 9, 15, 16, 17, 31, 32, 33, 63, 64, 65, 127, 128, 129, 255, 256, 257, 511, 512, 513, 1000, 1023, 1024, 1025];
            const LARGE: [usize; 12] = [2047, 2048, 2049, 4095, 4096, 4097, 10_000, 16_383, 16_384, 16_385, 65_535, 65_537];
            let len = if rng.chance(0.012) { *rng.pick(&LARGE) } else { *rng.pick(&SMALL) };
            let mut depth = 1;
            while (1usize << (2 * depth)) < len + 8 {
                depth += 1;
            }
            let root_res = 1 + rng.below((MAX_RES - depth as i32) as u64) as i32;
            let root = random_cell(rng, root_res);
            let all = children_at(root, root.res + depth as i32);
            let mut start = rng.usize(all.len() - len + 1);
            if rng.chance(0.5) {
                start &= !3; // sibling-group aligned
            }
            out.extend_from_slice(&all[start..start + len]);
            if rng.chance(0.3) && len > 8 {
                // thin it: drop a few cells so that only some groups are complete (the length stays on the list below)
                for _ in 0..1 + rng.below(3) {
                    let k = rng.usize(out.len());
                    out.remove(k);
                }
                // and top up from the cells after the run so that the length is the intended one again
                let mut next = start + len;
                while out.len() < len && next < all.len() {
                    out.push(all[next]);
                    next += 1;
                }
            }
        }
        "border" => {
            // k lone cells (one child out of each of k different sibling groups, so nothing can merge) followed in id order by ONE
            // complete sibling group, optionally followed by a few more lone cells; k sits around a power of two, so that the group
            // straddles a list position where a chunked or blocked scan would cut it
            let base = match rng.below(10) {
                0 => 4096usize,
                1 => 8192,
                2 => 2048,
                3 | 4 => 1024,
                5 | 6 => 256,
                7 => 64,
                _ => 16,
            };
            let k = base - 6 + rng.usize(9);
            let mut depth = 2;
            while (1usize << (2 * depth)) < 4 * (k + 8) {
                depth += 1;
            }
            let root_res = 1 + rng.below((MAX_RES - depth as i32) as u64) as i32;
            let root = random_cell(rng, root_res);
            let all = children_at(root, root.res + depth as i32);
            for g in 0..k {
                out.push(all[4 * g + rng.usize(4)]);
            }
            out.extend_from_slice(&all[4 * k..4 * k + 4]);
            for g in 0..rng.usize(4) {
                out.push(all[4 * (k + 1 + g) + rng.usize(4)]);
            }
        }
        "spine" => {
            // a complete covering of a root in which ONE path is refined all the way down to a random depth (up to the
            // finest resolution): every level holds the path cell's siblings, so compaction has to cascade through every
            // level back to the root - one merge per pass
            let root = match rng.below(3) {
                0 => WORLD,
                1 => MCell::new(0, rng.below(12) as u8, 0, 0),
                _ => MCell::new(1, rng.below(12) as u8, rng.below(5) as u8, 0),
            };
            let deepest = if rng.chance(0.4) { MAX_RES } else { (root.res + 1 + rng.below(28) as i32).min(MAX_RES) };
            let mut cur = root;
            while cur.res < deepest {
                let kids = children_at(cur, cur.res + 1);
                let k = rng.usize(kids.len());
                for (i, c) in kids.iter().enumerate() {
                    if i != k {
                        out.push(*c);
                    }
                }
                cur = kids[k];
            }
            out.push(cur);
        }
        "ancestors" => {
            // an antichain plus, for a third of its cells, a chain of 1-3 consecutive ancestors
            let mut base = cell_set(rng, "antichain");
            let mut extra: Vec<MCell> = Vec::new();
            for c in &base {
                if rng.chance(0.35) {
                    let k = 1 + rng.below(3) as i32;
                    for t in ((c.res - k).max(-1)..c.res).rev() {
                        extra.push(parent_at(*c, t).unwrap());
                    }
                }
            }
            base.extend(extra);
            out = base;
        }
        "overlap" => {
            // ancestor + descendant mixes and duplicates
            let mut base = cell_set(rng, "antichain");
            let mut extra: Vec<MCell> = Vec::new();
            for c in &base {
                if !rng.chance(0.3) {
                    continue;
                }
                if c.res >= 0 && rng.chance(0.5) {
                    let lo = (c.res - 3).max(-1);
                    let t = lo + rng.below((c.res - lo) as u64) as i32;
                    extra.push(parent_at(*c, t).unwrap());
                } else if c.res < MAX_RES {
                    let t = (c.res + 1 + rng.below(2) as i32).min(MAX_RES);
                    let kids = children_at(*c, t);
                    extra.push(*rng.pick(&kids));
                } else {
                    extra.push(*c);
                }
            }
            base.extend(extra);
            out = base;
        }
        _ => panic!("unknown cell set flavour {flavour}"),
    }
    if out.is_empty() {
        out.push(random_root(rng));
    }
    out
}

// ------------------------------------------------------------------------------------------------
// hostile ids / resolutions / coordinates (C05, C14)

pub const HOSTILE_RES: [i32; 24] = [
    i32::MIN,
    -100000,
    -1000,
    -3,
    -2,
    -1,
    0,
    1,
    2,
    28,
    29,
    30,
    31,
    32,
    33,
    59,
    60,
    63,
    64,
    65,
    100,
    1000,
    100000,
    i32::MAX,
];

pub fn hostile_res(rng: &mut Rng) -> i32 {
    match rng.below(4) {
        0 => rng.below(30) as i32,
        1 => rng.range(-40.0, 80.0) as i32,
        _ => *rng.pick(&HOSTILE_RES),
    }
}

pub const HOSTILE_ID_CLASSES: [&str; 10] = ["random", "lowmask", "highmask", "singlebit", "maxshift", "markeronly", "badtop6", "worldalias", "straybits", "valid"];

pub fn hostile_id(rng: &mut Rng, class: &str) -> u64 {
    match class {
        "random" => rng.next(),
        "lowmask" => rng.next() & ((1u64 << rng.below(64)).wrapping_sub(1)),
        "highmask" => rng.next() & !((1u64 << rng.below(64)).wrapping_sub(1)),
        "singlebit" => 1u64 << rng.below(64),
        "maxshift" => {
            if rng.chance(0.5) {
                u64::MAX >> rng.below(64)
            } else {
                u64::MAX << rng.below(64)
            }
        }
        "markeronly" => 1u64 << marker_bit(rng.below(30) as i32),
        "badtop6" => {
            // face / quintant field beyond the last face
            let res = rng.below(30) as i32;
            let top6 = if res == 0 { 12 + rng.below(52) } else { 60 + rng.below(4) };
            let body = if res >= 2 { (rng.next() & ((1u64 << (2 * (res - 1))) - 1)) << (marker_bit(res) + 1) } else { 0 };
            (top6 << 58) | body | (1u64 << marker_bit(res))
        }
        "worldalias" => {
            // non-zero words with no bit at any marker position: only even bits 0..=54 and bits 58..=63
            let mut w = 0u64;
            for b in (0..=54).step_by(2) {
                if rng.chance(0.15) {
                    w |= 1u64 << b;
                }
            }
            if rng.chance(0.5) {
                w |= rng.below(64) << 58;
            }
            if w == 0 {
                w = 1;
            }
            match rng.below(6) {
                0 => 1,
                1 => 4,
                2 => 0xfc00_0000_0000_0000,
                _ => w,
            }
        }
        "straybits" => {
            // a valid cell with extra bits set below its marker
            let r = rng.below(30) as i32;
            let c = random_cell(rng, r);
            let w = encode(c);
            let m = marker_bit(c.res);
            if m == 0 {
                w
            } else {
                w | (rng.next() & ((1u64 << m) - 1))
            }
        }
        "valid" => {
            let r = rng.below(31) as i32 - 1;
            encode(random_cell(rng, r))
        }
        _ => panic!("unknown id class {class}"),
    }
}

pub fn hostile_coord(rng: &mut Rng) -> (f64, f64) {
    let lon = match rng.below(8) {
        0 => *rng.pick(&[0.0, -0.0, 180.0, -180.0, 360.0, 540.0, -540.0, 1e300, -1e300, f64::MAX, f64::MIN, f64::MIN_POSITIVE, 5e-324, 1e16, -1e16]),
        1 => rng.range(-1e6, 1e6),
        _ => rng.range(-540.0, 540.0),
    };
    let lat = match rng.below(8) {
        0 => *rng.pick(&[0.0, -0.0, 90.0, -90.0, 90.00000000000001, -90.00000000000001, 91.0, -91.0, 180.0, 270.0, 1e300, -1e300, f64::MAX, f64::MIN, 5e-324]),
        1 => rng.range(-1000.0, 1000.0),
        _ => rng.range(-90.0, 90.0),
    };
    (lon, lat)
}

#[cfg(test)]
mod tests {
    use super::*;
    #[test]
    fn frame_is_a_dodecahedron() {
        let fr = Frame::new();
        for n in &fr.neighbours {
            assert_eq!(n.len(), 5);
        }
        for v in &fr.vertices {
            let mut ds: Vec<f64> = fr.centres.iter().map(|c| angle(*v, *c)).collect();
            ds.sort_by(|a, b| a.partial_cmp(b).unwrap());
            assert!((ds[0] - ds[2]).abs() < 1e-12 && ds[3] > ds[2] + 0.1);
        }
    }
    #[test]
    fn classes_generate() {
        let fr = Frame::new();
        let mut rng = Rng::stream(1, "t", 0);
        for c in POINT_CLASSES {
            for _ in 0..200 {
                let (lon, lat) = point(&mut rng, &fr, c);
                assert!(lon.is_finite() && lat.abs() <= 90.0, "{c} {lon} {lat}");
            }
        }
        for f in ["antichain", "complete", "multiroot", "lowres", "lookalike", "spine", "border"] {
            for _ in 0..50 {
                let s = cell_set(&mut rng, f);
                assert!(!s.is_empty());
                assert!(is_antichain(&s), "{f}");
                assert!(s.iter().all(|c| c.valid()));
            }
        }
        for _ in 0..50 {
            assert!(cell_set(&mut rng, "overlap").iter().all(|c| c.valid()));
        }
        for c in HOSTILE_ID_CLASSES {
            for _ in 0..100 {
                let w = hostile_id(&mut rng, c);
                if c == "worldalias" {
                    assert!(w != 0 && alias_resolution(w) == -1);
                }
                if c == "valid" {
                    assert!(is_canonical(w));
                }
            }
        }
    }
}
