//! Shared oracles written from elementary geometry (DESIGN §4). None of them calls the function it
//! judges. Robustness rule: translate to a local origin before multiplying, work on difference vectors.

pub type V3 = [f64; 3];
pub type P2 = [f64; 2];

#[inline]
pub fn dot(a: V3, b: V3) -> f64 {
    a[0] * b[0] + a[1] * b[1] + a[2] * b[2]
}
#[inline]
pub fn cross(a: V3, b: V3) -> V3 {
    [a[1] * b[2] - a[2] * b[1], a[2] * b[0] - a[0] * b[2], a[0] * b[1] - a[1] * b[0]]
}
#[inline]
pub fn sub(a: V3, b: V3) -> V3 {
    [a[0] - b[0], a[1] - b[1], a[2] - b[2]]
}
#[inline]
pub fn add(a: V3, b: V3) -> V3 {
    [a[0] + b[0], a[1] + b[1], a[2] + b[2]]
}
#[inline]
pub fn scale(a: V3, s: f64) -> V3 {
    [a[0] * s, a[1] * s, a[2] * s]
}
#[inline]
pub fn norm(a: V3) -> f64 {
    dot(a, a).sqrt()
}
#[inline]
pub fn normalize(a: V3) -> V3 {
    let n = norm(a);
    [a[0] / n, a[1] / n, a[2] / n]
}
/// true angle between two vectors, accurate for tiny and for near-pi angles
#[inline]
pub fn angle(a: V3, b: V3) -> f64 {
    norm(cross(a, b)).atan2(dot(a, b))
}
/// angle between two UNIT vectors from the chord (best for tiny angles: no cancellation at all)
#[inline]
pub fn chord_angle(a: V3, b: V3) -> f64 {
    let c = norm(sub(a, b));
    2.0 * (0.5 * c).min(1.0).asin()
}
/// an orthonormal tangent basis (e1, e2) at unit vector c, with e1 x e2 = c (right-handed seen from outside)
pub fn tangent_basis(c: V3) -> (V3, V3) {
    let helper = if c[2].abs() < 0.9 { [0.0, 0.0, 1.0] } else { [1.0, 0.0, 0.0] };
    let e1 = normalize(cross(helper, c));
    let e2 = cross(c, e1);
    (e1, e2)
}

// ------------------------------------------------------------------------------------------------
// O6: closed-form WGS84 authalic latitude, colatitude form (exact at the poles)

pub const WGS84_F: f64 = 1.0 / 298.257223563;

fn e2() -> f64 {
    WGS84_F * (2.0 - WGS84_F)
}

/// authalic colatitude (radians) of a geodetic colatitude theta (radians, 0..=pi/2), no cancellation
pub fn authalic_colat(theta: f64) -> f64 {
    let e2 = e2();
    let e = e2.sqrt();
    let u = 2.0 * (theta / 2.0).sin().powi(2); // 1 - sin(phi)
    let s = 1.0 - u;
    let qp = (1.0 - e2) * (1.0 / (1.0 - e2) + e.atanh() / e);
    let dq = (1.0 - e2) * (u * (1.0 + e2 * s) / ((1.0 - e2) * (1.0 - e2 * s * s)) + (e * u / (1.0 - e2 * s)).atanh() / e);
    2.0 * (dq / (2.0 * qp)).sqrt().min(1.0).asin()
}

/// closed-form authalic latitude (radians) of a geodetic latitude (radians), textbook q-function form.
/// Accurate away from the poles (|lat| <= 89 deg is where C19 uses it).
pub fn authalic_lat_textbook(phi: f64) -> f64 {
    let e2 = e2();
    let e = e2.sqrt();
    let q = |s: f64| (1.0 - e2) * (s / (1.0 - e2 * s * s) + (e * s).atanh() / e);
    (q(phi.sin()) / q(1.0)).clamp(-1.0, 1.0).asin()
}

/// geodetic colatitude of an authalic colatitude (inverse of `authalic_colat`), multiplicative fixed point
pub fn geodetic_colat(psi: f64) -> f64 {
    if psi <= 0.0 {
        return 0.0;
    }
    let mut theta = psi;
    for _ in 0..60 {
        let p = authalic_colat(theta);
        if p == 0.0 {
            break;
        }
        let next = (theta * psi / p).min(std::f64::consts::FRAC_PI_2);
        if (next - theta).abs() <= 1e-17 * theta.abs() {
            theta = next;
            break;
        }
        theta = next;
    }
    theta
}

/// Unit vector (geographic frame: x towards lon 0, z north) of a lon/lat given in DEGREES, geodetic latitude,
/// on the authalic sphere. |lat| may exceed 90 by rounding: it is clamped.
pub fn unit_from_lonlat(lon_deg: f64, lat_deg: f64) -> V3 {
    let sgn = if lat_deg < 0.0 { -1.0 } else { 1.0 };
    let theta = (90.0 - lat_deg.abs()).max(0.0).to_radians(); // exact subtraction
    let psi = authalic_colat(theta);
    let l = reduce_lon_deg(lon_deg).to_radians();
    [psi.sin() * l.cos(), psi.sin() * l.sin(), sgn * psi.cos()]
}

/// lon/lat in degrees (geodetic) of a unit vector in the geographic frame
pub fn lonlat_from_unit(v: V3) -> (f64, f64) {
    let v = normalize(v);
    let lon = v[1].atan2(v[0]).to_degrees();
    let psi = (v[0] * v[0] + v[1] * v[1]).sqrt().atan2(v[2].abs()); // authalic colatitude from the nearer pole
    let theta = geodetic_colat(psi);
    let lat = 90.0 - theta.to_degrees();
    (lon, if v[2] < 0.0 { -lat } else { lat })
}

/// exact reduction of a longitude in degrees to (-180, 180] (fmod is exact in IEEE arithmetic)
pub fn reduce_lon_deg(lon: f64) -> f64 {
    let mut l = lon % 360.0;
    if l > 180.0 {
        l -= 360.0;
    } else if l <= -180.0 {
        l += 360.0;
    }
    l
}

// ------------------------------------------------------------------------------------------------
// planar polygons

/// twice the signed area (positive = counter-clockwise), computed about the first vertex
pub fn poly_area2(vs: &[P2]) -> f64 {
    let o = vs[0];
    let mut a = 0.0;
    for i in 0..vs.len() {
        let p = vs[i];
        let q = vs[(i + 1) % vs.len()];
        a += (p[0] - o[0]) * (q[1] - o[1]) - (q[0] - o[0]) * (p[1] - o[1]);
    }
    a
}

pub fn seg_dist(a: P2, b: P2, q: P2) -> f64 {
    let (ex, ey) = (b[0] - a[0], b[1] - a[1]);
    let (px, py) = (q[0] - a[0], q[1] - a[1]);
    let l2 = ex * ex + ey * ey;
    let t = if l2 > 0.0 { ((px * ex + py * ey) / l2).clamp(0.0, 1.0) } else { 0.0 };
    let (cx, cy) = (px - t * ex, py - t * ey);
    (cx * cx + cy * cy).sqrt()
}

/// O1 core: signed Euclidean distance of q to a CONVEX polygon of either winding:
/// negative inside (minus the distance to the nearest edge line), positive outside (true distance)
pub fn convex_signed_dist(vs: &[P2], q: P2) -> f64 {
    let n = vs.len();
    let sgn = if poly_area2(vs) >= 0.0 { 1.0 } else { -1.0 };
    let mut max_edge = f64::NEG_INFINITY;
    let mut min_seg = f64::INFINITY;
    for i in 0..n {
        let a = vs[i];
        let b = vs[(i + 1) % n];
        let (ex, ey) = (b[0] - a[0], b[1] - a[1]);
        let (px, py) = (q[0] - a[0], q[1] - a[1]);
        let len = (ex * ex + ey * ey).sqrt();
        if len == 0.0 {
            continue;
        }
        let d = sgn * (px * ey - py * ex) / len; // outward normal of a ccw polygon is (ey, -ex)
        if d > max_edge {
            max_edge = d;
        }
        let ds = seg_dist(a, b, q);
        if ds < min_seg {
            min_seg = ds;
        }
    }
    if max_edge <= 0.0 {
        max_edge
    } else {
        min_seg
    }
}

/// general (possibly non-convex) simple polygon: (inside by crossing number, distance to the nearest segment)
pub fn polygon_inside_dist(vs: &[P2], q: P2) -> (bool, f64) {
    let n = vs.len();
    let mut inside = false;
    let mut dmin = f64::INFINITY;
    for i in 0..n {
        let a = [vs[i][0] - q[0], vs[i][1] - q[1]];
        let b = [vs[(i + 1) % n][0] - q[0], vs[(i + 1) % n][1] - q[1]];
        if (a[1] > 0.0) != (b[1] > 0.0) {
            let x = a[0] + (0.0 - a[1]) * (b[0] - a[0]) / (b[1] - a[1]);
            if x > 0.0 {
                inside = !inside;
            }
        }
        let d = seg_dist(a, b, [0.0, 0.0]);
        if d < dmin {
            dmin = d;
        }
    }
    (inside, dmin)
}

/// Sutherland-Hodgman: clip `subject` against CONVEX `clip` (either winding); returns the clipped polygon
pub fn clip_convex(subject: &[P2], clip: &[P2]) -> Vec<P2> {
    let sgn = if poly_area2(clip) >= 0.0 { 1.0 } else { -1.0 };
    let mut out: Vec<P2> = subject.to_vec();
    let n = clip.len();
    for i in 0..n {
        if out.is_empty() {
            break;
        }
        let a = clip[i];
        let b = clip[(i + 1) % n];
        let side = |p: P2| sgn * ((b[0] - a[0]) * (p[1] - a[1]) - (b[1] - a[1]) * (p[0] - a[0])); // >= 0 inside
        let input = std::mem::take(&mut out);
        for j in 0..input.len() {
            let p = input[j];
            let q = input[(j + 1) % input.len()];
            let (sp, sq) = (side(p), side(q));
            if sp >= 0.0 {
                out.push(p);
            }
            if (sp >= 0.0) != (sq >= 0.0) {
                let t = sp / (sp - sq);
                out.push([p[0] + t * (q[0] - p[0]), p[1] + t * (q[1] - p[1])]);
            }
        }
    }
    out
}

// ------------------------------------------------------------------------------------------------
// spherical rings

pub fn centroid_dir(vs: &[V3]) -> V3 {
    let mut c = [0.0; 3];
    for v in vs {
        c = add(c, *v);
    }
    normalize(c)
}

/// O3a: signed area of a spherical polygon with great-circle edges, fan of Van Oosterom-Strackee triangles about `c`.
/// Positive = counter-clockwise seen from outside the sphere.
pub fn sph_area_fan(vs: &[V3], c: V3) -> f64 {
    let n = vs.len();
    let mut area = 0.0;
    for i in 0..n {
        let a = vs[i];
        let b = vs[(i + 1) % n];
        let num = dot(c, cross(a, b));
        let den = 1.0 + dot(c, a) + dot(a, b) + dot(b, c);
        area += 2.0 * num.atan2(den);
    }
    area
}

/// O3b: signed area of a SMALL spherical polygon: orthographic image in the tangent plane at c, shoelace on
/// difference vectors (no cancellation); relative error O(L^2), L = angular size.
pub fn sph_area_small(vs: &[V3], c: V3) -> f64 {
    let n = vs.len();
    let d: Vec<V3> = vs.iter().map(|v| sub(*v, c)).collect();
    let mut s = 0.0;
    for i in 0..n {
        s += dot(c, cross(d[i], d[(i + 1) % n]));
    }
    0.5 * s
}

/// gnomonic image (tangent plane at unit c with basis e1,e2) of unit vector v; computed from the difference v - c
#[inline]
pub fn gnomonic(v: V3, c: V3, e1: V3, e2: V3) -> P2 {
    let d = sub(v, c);
    let w = 1.0 + dot(d, c); // = v.c
    [dot(d, e1) / w, dot(d, e2) / w]
}

/// winding number (in turns, rounded) of the closed ring vs about direction c, measured in the tangent plane at c
pub fn winding_about(vs: &[V3], c: V3) -> Option<i32> {
    let (e1, e2) = tangent_basis(c);
    let n = vs.len();
    let mut total = 0.0;
    for i in 0..n {
        let a = vs[i];
        let b = vs[(i + 1) % n];
        let (da, db) = (sub(a, c), sub(b, c));
        let pa = [dot(da, e1), dot(da, e2)];
        let pb = [dot(db, e1), dot(db, e2)];
        let la = (pa[0] * pa[0] + pa[1] * pa[1]).sqrt();
        let lb = (pb[0] * pb[0] + pb[1] * pb[1]).sqrt();
        if la == 0.0 || lb == 0.0 {
            return None; // ring passes through c
        }
        let cr = pa[0] * pb[1] - pa[1] * pb[0];
        let dt = pa[0] * pb[0] + pa[1] * pb[1];
        total += cr.atan2(dt);
    }
    Some((total / std::f64::consts::TAU).round() as i32)
}

/// minimum angular distance from direction c to the great-circle segments of the ring
pub fn ring_min_dist(vs: &[V3], c: V3) -> f64 {
    let (e1, e2) = tangent_basis(c);
    let n = vs.len();
    let mut dmin = f64::INFINITY;
    for i in 0..n {
        let a = vs[i];
        let b = vs[(i + 1) % n];
        if dot(a, c) <= 0.0 || dot(b, c) <= 0.0 {
            dmin = dmin.min(chord_angle(a, c)).min(chord_angle(b, c));
            continue;
        }
        let pa = gnomonic(a, c, e1, e2);
        let pb = gnomonic(b, c, e1, e2);
        dmin = dmin.min(seg_dist(pa, pb, [0.0, 0.0]).atan());
    }
    dmin
}

#[cfg(test)]
mod tests {
    use super::*;
    #[test]
    fn signed_distance_unit_square() {
        let sq = [[10.0, 10.0], [11.0, 10.0], [11.0, 11.0], [10.0, 11.0]];
        assert!((convex_signed_dist(&sq, [10.5, 10.5]) + 0.5).abs() < 1e-15);
        assert!((convex_signed_dist(&sq, [12.0, 10.5]) - 1.0).abs() < 1e-15);
        assert!((convex_signed_dist(&sq, [12.0, 12.0]) - 2f64.sqrt()).abs() < 1e-15);
        let mut rev = sq;
        rev.reverse();
        assert!((convex_signed_dist(&rev, [10.25, 10.5]) + 0.25).abs() < 1e-15);
        // tiny polygon far from the origin: no cancellation
        let t = 1e-9;
        let tiny = [[0.5, 0.5], [0.5 + t, 0.5], [0.5 + t, 0.5 + t], [0.5, 0.5 + t]];
        let d = convex_signed_dist(&tiny, [0.5 + 0.5 * t, 0.5 + 0.25 * t]);
        assert!((d + 0.25 * t).abs() < 1e-7 * t, "{d}");
    }
    #[test]
    fn clip_squares() {
        let a = [[0.0, 0.0], [2.0, 0.0], [2.0, 2.0], [0.0, 2.0]];
        let b = [[1.0, 1.0], [3.0, 1.0], [3.0, 3.0], [1.0, 3.0]];
        let c = clip_convex(&a, &b);
        assert!((poly_area2(&c).abs() / 2.0 - 1.0).abs() < 1e-15);
        let mut br = b;
        br.reverse();
        let c = clip_convex(&a, &br);
        assert!((poly_area2(&c).abs() / 2.0 - 1.0).abs() < 1e-15);
    }
    #[test]
    fn octant_area() {
        let vs = [[1.0, 0.0, 0.0], [0.0, 1.0, 0.0], [0.0, 0.0, 1.0]];
        let c = centroid_dir(&vs);
        assert!((sph_area_fan(&vs, c) - std::f64::consts::FRAC_PI_2).abs() < 1e-14);
        let mut r = vs;
        r.reverse();
        assert!((sph_area_fan(&r, c) + std::f64::consts::FRAC_PI_2).abs() < 1e-14);
    }
    #[test]
    fn authalic_forms_agree() {
        for k in 0..=890 {
            let lat = (k as f64 / 10.0).to_radians();
            let a = authalic_lat_textbook(lat);
            let b = std::f64::consts::FRAC_PI_2 - authalic_colat(std::f64::consts::FRAC_PI_2 - lat);
            assert!((a - b).abs() < 1e-13, "{k} {a} {b}"); // asin form loses digits towards the pole
        }
        // pole: ratio psi/theta tends to a constant
        let r1 = authalic_colat(1e-9) / 1e-9;
        let r2 = authalic_colat(1e-12) / 1e-12;
        assert!((r1 / r2 - 1.0).abs() < 1e-12);
        for &psi in &[1e-15, 1e-9, 1e-3, 0.3, 1.2, 1.5707] {
            let th = geodetic_colat(psi);
            assert!((authalic_colat(th) / psi - 1.0).abs() < 1e-14, "{psi}");
        }
    }
    #[test]
    fn lonlat_round_trip() {
        for &(lon, lat) in &[(0.0, 0.0), (179.999, 45.0), (-120.0, -89.9999999), (10.0, 90.0), (33.0, -90.0), (-57.0, 26.565)] {
            let v = unit_from_lonlat(lon, lat);
            let (lo, la) = lonlat_from_unit(v);
            let w = unit_from_lonlat(lo, la);
            assert!(chord_angle(v, w) < 1e-15, "{lon} {lat} -> {lo} {la}");
        }
    }
    #[test]
    fn winding() {
        let c = normalize([0.3, -0.2, 0.9]);
        let (e1, e2) = tangent_basis(c);
        let ring: Vec<V3> = (0..7)
            .map(|k| {
                let t = k as f64 * std::f64::consts::TAU / 7.0;
                normalize(add(c, add(scale(e1, 0.01 * t.cos()), scale(e2, 0.01 * t.sin()))))
            })
            .collect();
        assert_eq!(winding_about(&ring, c), Some(1));
        assert!(sph_area_fan(&ring, c) > 0.0);
        assert!(sph_area_small(&ring, c) > 0.0);
        let far = normalize([-0.3, 0.2, -0.9]);
        assert_eq!(winding_about(&ring, normalize(add(c, scale(e1, 0.05)))), Some(0));
        let _ = far;
        assert!((ring_min_dist(&ring, c) - 0.01 * (std::f64::consts::PI / 7.0).cos()).abs() < 1e-6);
    }
}
