//! Reference models written from the specification (DESIGN §4 O4, O5, O7, O8): bit layout of ids, the
//! cell tree, set-semantics compaction, exact counts. Nothing here calls into the library.

use std::collections::{BTreeSet, HashMap, HashSet};

/// per-face first-quintant table (independent copy on purpose). The specification lists it per face in
/// construction order, [4,2,3,2,0,4,3,2,2,0,3,0], and then renumbers the faces along the curve with the
/// placement order [0,1,2,4,3,5,7,8,6,11,10,9]; this is the table indexed by the FINAL face number.
pub const FIRST_QUINTANT: [u8; 12] = [4, 2, 3, 0, 2, 4, 2, 2, 3, 0, 3, 0];

pub const MAX_RES: i32 = 29;

#[derive(Clone, Copy, PartialEq, Eq, Hash, Debug, PartialOrd, Ord)]
pub struct MCell {
    /// -1 = world cell (face, q, s are 0)
    pub res: i32,
    pub face: u8,
    /// quintant CODE as stored in the id: (top 6 bits) mod 5
    pub q: u8,
    pub s: u64,
}

pub const WORLD: MCell = MCell { res: -1, face: 0, q: 0, s: 0 };

impl MCell {
    pub fn new(res: i32, face: u8, q: u8, s: u64) -> MCell {
        match res {
            -1 => WORLD,
            0 => MCell { res, face, q: 0, s: 0 },
            1 => MCell { res, face, q, s: 0 },
            _ => MCell { res, face, q, s },
        }
    }
    /// the library's `segment` for this cell (quintant code rotated by the face's first quintant)
    pub fn segment(&self) -> usize {
        ((self.q + FIRST_QUINTANT[self.face as usize]) % 5) as usize
    }
    pub fn valid(&self) -> bool {
        match self.res {
            -1 => *self == WORLD,
            0 => self.face < 12 && self.q == 0 && self.s == 0,
            1 => self.face < 12 && self.q < 5 && self.s == 0,
            r if r <= MAX_RES => self.face < 12 && self.q < 5 && self.s < (1u64 << (2 * (r - 1))),
            _ => false,
        }
    }
}

/// bit position of the resolution marker
pub fn marker_bit(res: i32) -> u32 {
    match res {
        0 => 57,
        1 => 56,
        r => (57 - 2 * (r - 1)) as u32,
    }
}

pub fn encode(c: MCell) -> u64 {
    debug_assert!(c.valid());
    match c.res {
        -1 => 0,
        0 => ((c.face as u64) << 58) | (1u64 << 57),
        1 => ((5 * c.face as u64 + c.q as u64) << 58) | (1u64 << 56),
        r => {
            let m = marker_bit(r);
            ((5 * c.face as u64 + c.q as u64) << 58) | (c.s << (m + 1)) | (1u64 << m)
        }
    }
}

/// inverse of `encode` on the set of canonical words; None for every other word
pub fn decode(w: u64) -> Option<MCell> {
    if w == 0 {
        return Some(WORLD);
    }
    let p = w.trailing_zeros();
    let top6 = (w >> 58) as u8;
    let res = match p {
        57 => 0,
        56 => 1,
        p if p <= 55 && p % 2 == 1 => ((57 - p) / 2 + 1) as i32,
        _ => return None,
    };
    match res {
        0 => {
            if top6 < 12 {
                Some(MCell { res, face: top6, q: 0, s: 0 })
            } else {
                None
            }
        }
        _ => {
            if top6 >= 60 {
                return None;
            }
            let s = if res >= 2 { (w & ((1u64 << 58) - 1)) >> (p + 1) } else { 0 };
            Some(MCell { res, face: top6 / 5, q: top6 % 5, s })
        }
    }
}

pub fn is_canonical(w: u64) -> bool {
    decode(w).is_some()
}

/// resolution the library's documented scan assigns to ANY word: lowest set bit among the marker positions
/// 1,3,..,55,56,57; -1 when none is set (0 and its aliases)
pub fn alias_resolution(w: u64) -> i32 {
    let mut r = 29;
    while r >= 0 {
        if (w >> marker_bit(r)) & 1 == 1 {
            return r;
        }
        r -= 1;
    }
    -1
}

/// the canonical cell a (possibly non-canonical) word aliases under that scan, if its face/quintant bits are in range
pub fn alias_cell(w: u64) -> Option<MCell> {
    let res = alias_resolution(w);
    if res == -1 {
        return Some(WORLD);
    }
    let top6 = (w >> 58) as u8;
    if res == 0 {
        return if top6 < 12 { Some(MCell::new(0, top6, 0, 0)) } else { None };
    }
    if top6 >= 60 {
        return None;
    }
    let s = if res >= 2 { (w & ((1u64 << 58) - 1)) >> (marker_bit(res) + 1) } else { 0 };
    Some(MCell::new(res, top6 / 5, top6 % 5, s))
}

// ------------------------------------------------------------------------------------------------
// O5 tree

pub fn parent_at(c: MCell, target: i32) -> Option<MCell> {
    if target > c.res || target < -1 {
        return None;
    }
    Some(match target {
        -1 => WORLD,
        0 => MCell::new(0, c.face, 0, 0),
        1 => MCell::new(1, c.face, c.q, 0),
        t => MCell::new(t, c.face, c.q, c.s >> (2 * (c.res - t))),
    })
}

/// exact fan-out between two resolutions (O8)
pub fn fanout(from: i32, to: i32) -> u128 {
    if to < from {
        return 0;
    }
    num_cells(to) / num_cells(from)
}

/// exact number of cells: 1 (world), 12, 60 * 4^(r-1)
pub fn num_cells(res: i32) -> u128 {
    match res {
        -1 => 1,
        0 => 12,
        r => 60u128 << (2 * (r - 1)),
    }
}

/// children of c at `target`, enumerated in model order (face, quintant code, s ascending)
pub fn children_at(c: MCell, target: i32) -> Vec<MCell> {
    assert!(target >= c.res && target <= MAX_RES);
    assert!(fanout(c.res, target) <= 1 << 24);
    if target == c.res {
        return vec![c];
    }
    let faces: Vec<u8> = if c.res == -1 { (0..12).collect() } else { vec![c.face] };
    let mut out = Vec::new();
    for f in faces {
        if target == 0 {
            out.push(MCell::new(0, f, 0, 0));
            continue;
        }
        let qs: Vec<u8> = if c.res <= 0 { (0..5).collect() } else { vec![c.q] };
        for q in qs {
            if target == 1 {
                out.push(MCell::new(1, f, q, 0));
                continue;
            }
            let base_res = c.res.max(1);
            let shift = 2 * (target - base_res) as u32;
            let s0 = if c.res >= 2 { c.s << shift } else { 0 };
            for i in 0..(1u64 << shift) {
                out.push(MCell::new(target, f, q, s0 + i));
            }
        }
    }
    out
}

/// position interval [lo, hi) of the cell's descendants among the 60*4^(R-1) cells of resolution R >= 1
/// (ordered by face, quintant code, s). World and base cells are unions of such intervals too.
pub fn leaf_interval(c: MCell, r: i32) -> (u128, u128) {
    assert!(r >= 1 && r >= c.res);
    let per_quintant: u128 = 1u128 << (2 * (r - 1));
    match c.res {
        -1 => (0, 60 * per_quintant),
        0 => (5 * c.face as u128 * per_quintant, 5 * (c.face as u128 + 1) * per_quintant),
        1 => {
            let k = 5 * c.face as u128 + c.q as u128;
            (k * per_quintant, (k + 1) * per_quintant)
        }
        cr => {
            let k = 5 * c.face as u128 + c.q as u128;
            let w: u128 = 1u128 << (2 * (r - cr));
            (k * per_quintant + c.s as u128 * w, k * per_quintant + (c.s as u128 + 1) * w)
        }
    }
}

/// union of leaf intervals as a sorted list of disjoint, merged intervals (the covered set at resolution R)
pub fn coverage(cells: &[MCell], r: i32) -> Vec<(u128, u128)> {
    let mut iv: Vec<(u128, u128)> = cells.iter().map(|c| leaf_interval(*c, r)).collect();
    iv.sort();
    let mut out: Vec<(u128, u128)> = Vec::new();
    for (lo, hi) in iv {
        if let Some(last) = out.last_mut() {
            if lo <= last.1 {
                if hi > last.1 {
                    last.1 = hi;
                }
                continue;
            }
        }
        out.push((lo, hi));
    }
    out
}

/// true when no two cells of the list overlap (no duplicates, no ancestor/descendant pair)
pub fn is_antichain(cells: &[MCell]) -> bool {
    let r = cells.iter().map(|c| c.res).max().unwrap_or(1).max(1);
    let mut iv: Vec<(u128, u128)> = cells.iter().map(|c| leaf_interval(*c, r)).collect();
    iv.sort();
    iv.windows(2).all(|w| w[0].1 <= w[1].0)
}

// ------------------------------------------------------------------------------------------------
// O7 compaction model: the unique maximal antichain covering the same leaves

pub fn siblings_expected(res: i32) -> usize {
    match res {
        0 => 12,
        1 => 5,
        _ => 4,
    }
}

pub fn compact_model(input: &[MCell]) -> BTreeSet<MCell> {
    let set: HashSet<MCell> = input.iter().copied().collect();
    // (1) drop every cell that has a proper ancestor in the set
    let mut cur: HashSet<MCell> = HashSet::new();
    for c in &set {
        let mut covered = false;
        let mut t = c.res - 1;
        while t >= -1 {
            if set.contains(&parent_at(*c, t).unwrap()) {
                covered = true;
                break;
            }
            t -= 1;
        }
        if !covered {
            cur.insert(*c);
        }
    }
    // (2) merge complete sibling groups, finest level first, to a fixed point
    let mut r = cur.iter().map(|c| c.res).max().unwrap_or(-1);
    while r >= 0 {
        let mut groups: HashMap<MCell, usize> = HashMap::new();
        for c in cur.iter().filter(|c| c.res == r) {
            *groups.entry(parent_at(*c, r - 1).unwrap()).or_insert(0) += 1;
        }
        for (p, n) in groups {
            if n == siblings_expected(r) {
                cur.retain(|c| !(c.res == r && parent_at(*c, r - 1).unwrap() == p));
                cur.insert(p);
            }
        }
        r -= 1;
    }
    cur.into_iter().collect()
}

/// does the set contain a complete sibling group? (maximality test that does not need `compact_model`)
pub fn find_complete_group(cells: &[MCell]) -> Option<MCell> {
    let set: HashSet<MCell> = cells.iter().copied().collect();
    let mut groups: HashMap<MCell, usize> = HashMap::new();
    for c in &set {
        if c.res >= 0 {
            *groups.entry(parent_at(*c, c.res - 1).unwrap()).or_insert(0) += 1;
        }
    }
    for (p, n) in groups {
        if n == siblings_expected(p.res + 1) {
            return Some(p);
        }
    }
    None
}

#[cfg(test)]
mod tests {
    use super::*;
    #[test]
    fn encode_decode_small() {
        let mut seen = HashSet::new();
        for r in -1..=6 {
            for c in children_at(WORLD, r) {
                let w = encode(c);
                assert!(seen.insert(w));
                assert_eq!(decode(w), Some(c));
                assert_eq!(alias_resolution(w), r);
                assert_eq!(alias_cell(w), Some(c));
            }
        }
        assert_eq!(seen.len() as u128, 1 + 12 + 60 + 240 + 960 + 3840 + 15360 + 61440);
        assert_eq!(encode(MCell::new(0, 3, 0, 0)), (3u64 << 58) | (1 << 57));
        assert_eq!(encode(MCell::new(29, 11, 4, (1 << 56) - 1)), (59u64 << 58) | (((1u64 << 56) - 1) << 2) | 2);
        assert_eq!(decode(1), None);
        assert_eq!(decode(4), None);
        assert_eq!(decode(60u64 << 58 | 1 << 56), None);
        assert_eq!(decode(12u64 << 58 | 1 << 57), None);
        assert_eq!(alias_resolution(1), -1);
        assert_eq!(alias_resolution(0xfc00000000000000), -1);
    }
    #[test]
    fn tree_and_intervals() {
        let c = MCell::new(5, 7, 3, 0b10_11_01_00);
        assert_eq!(parent_at(c, 4), Some(MCell::new(4, 7, 3, 0b10_11_01)));
        assert_eq!(parent_at(c, 1), Some(MCell::new(1, 7, 3, 0)));
        assert_eq!(parent_at(c, 0), Some(MCell::new(0, 7, 0, 0)));
        assert_eq!(children_at(c, 7).len(), 16);
        for k in children_at(c, 7) {
            assert_eq!(parent_at(k, 5), Some(c));
        }
        assert_eq!(children_at(WORLD, 2).len(), 240);
        assert_eq!(fanout(-1, 3), 960);
        assert_eq!(fanout(0, 1), 5);
        let (lo, hi) = leaf_interval(c, 7);
        assert_eq!(hi - lo, 16);
        assert_eq!(coverage(&children_at(c, 7), 7), vec![(lo, hi)]);
        assert_eq!(coverage(&[WORLD], 3), vec![(0, 960)]);
    }
    #[test]
    fn compaction_model() {
        let mut v = children_at(MCell::new(0, 0, 0, 0), 1);
        v.extend((1..12).map(|f| MCell::new(0, f, 0, 0)));
        assert_eq!(compact_model(&v).into_iter().collect::<Vec<_>>(), vec![WORLD]);
        let mut v = children_at(MCell::new(1, 2, 1, 0), 3);
        v.remove(5);
        let m = compact_model(&v);
        assert_eq!(m.len(), 3 + 3);
        assert!(find_complete_group(&m.iter().copied().collect::<Vec<_>>()).is_none());
        assert!(is_antichain(&m.iter().copied().collect::<Vec<_>>()));
        let v = vec![MCell::new(0, 5, 0, 0), MCell::new(1, 5, 2, 0), MCell::new(3, 5, 2, 7)];
        assert_eq!(compact_model(&v).len(), 1);
        assert!(!is_antichain(&v));
    }
}
