//! C05 — cell-id codec (bits and hex) is a bijection with the documented layout (DESIGN §6 C05)
use crate::gen;
use crate::model::*;
use crate::mon::Monitor;
use crate::orc::*;
use crate::report::*;
use crate::rng::{mix, Rng};
use crate::Ctx;
use a5::core::serialization::{deserialize, serialize};
use serde_json::{json, Value};
use std::collections::HashSet;

pub const MONITOR: Monitor = Monitor {
    id: "C05",
    rule: "one evaluation = one (face, quintant, position, resolution) tuple run through serialize / deserialize / get_resolution in \
           lock-step with the independent bit-layout model, or one 64-bit value / string through the hex codec, or one id returned by \
           a public call passed through the canonical-form filter; non-trivial = distinct tuples of resolution >= 2 (those with curve \
           bits), distinct 64-bit hex values, distinct strings",
    run,
    replay,
};

fn tuple_json(c: MCell) -> Value {
    json!({"res": c.res, "face": c.face, "q": c.q, "s": hu(c.s)})
}

pub fn check_tuple(run: &mut Run, c: MCell) -> Option<u64> {
    run.evaluations += 1;
    let want = encode(c);
    let case = || tuple_json(c);
    let got = match flatten(guard(|| serialize(&to_a5(c)))) {
        Ok(w) => w,
        Err(e) => {
            run.violation("C05.encode", case(), format!("serialize failed on a valid cell: {e}"));
            return None;
        }
    };
    if got != want {
        run.violation("C05.encode", case(), format!("serialize gave {} but the documented layout is {}", hu(got), hu(want)));
    }
    match flatten(guard(|| deserialize(want))) {
        Ok(d) => {
            // the decoded description must be the canonical one: fields a resolution does not use are zero
            let same = d.resolution == c.res
                && match c.res {
                    -1 => d.origin_id == 0 && d.segment == 0 && d.s == 0,
                    0 => d.origin_id == c.face && d.segment == 0 && d.s == 0,
                    1 => d.origin_id == c.face && d.segment == c.segment() && d.s == 0,
                    _ => d.origin_id == c.face && d.segment == c.segment() && d.s == c.s,
                };
            if !same {
                run.violation("C05.decode", case(), format!("deserialize({}) = {:?}, expected face {} segment {} s {} res {}", hu(want), d, c.face, c.segment(), c.s, c.res));
            }
        }
        Err(e) => run.violation("C05.decode", case(), format!("deserialize({}) failed: {e}", hu(want))),
    }
    match guard(|| a5::get_resolution(want)) {
        Ok(r) if r == c.res => {}
        Ok(r) => run.violation("C05.resolution", case(), format!("get_resolution({}) = {r}, encoded resolution {}", hu(want), c.res)),
        Err(e) => run.violation("C05.resolution", case(), format!("get_resolution({}) {e}", hu(want))),
    }
    if c.res >= 2 {
        run.nontrivial(mix(want, 5));
        if c.s > 1 && run.wants_sample("tuple") {
            run.sample("tuple", || json!({"tuple": tuple_json(c), "serialize": hu(got), "model": hu(want)}));
        }
    }
    Some(got)
}

fn hex_ok(s: &str) -> bool {
    !s.is_empty() && s.len() <= 16 && s.bytes().all(|b| b.is_ascii_digit() || (b'a'..=b'f').contains(&b)) && (s == "0" || !s.starts_with('0'))
}

pub fn check_hex_value(run: &mut Run, x: u64) {
    run.evaluations += 1;
    let case = || json!({ "value": hu(x) });
    let s = match guard(|| a5::u64_to_hex(x)) {
        Ok(s) => s,
        Err(e) => {
            run.violation("C05.hex_format", case(), format!("u64_to_hex {e}"));
            return;
        }
    };
    if !hex_ok(&s) {
        run.violation("C05.hex_format", case(), format!("u64_to_hex gave {s:?}: not 1-16 lower-case digits without prefix / leading zeros"));
    }
    match flatten(guard(|| a5::hex_to_u64(&s))) {
        Ok(y) if y == x => {}
        Ok(y) => run.violation("C05.hex_roundtrip", case(), format!("hex_to_u64(u64_to_hex(x)) = {}", hu(y))),
        Err(e) => run.violation("C05.hex_roundtrip", case(), format!("hex_to_u64({s:?}) failed: {e}")),
    }
    run.nontrivial(mix(x, 7));
    if run.wants_sample("hex_value") {
        run.sample("hex_value", || json!({"value": hu(x), "u64_to_hex": s}));
    }
}

#[derive(Debug, PartialEq)]
enum HexExpect {
    /// 1-16 lower-case hex digits: must parse to exactly this value
    Must(u64),
    /// a value that fits but is written in a form the property does not pin down (leading '+', upper-case digits, more than 16
    /// characters because of leading zeros): may be accepted or rejected, but if accepted it must be this value
    May(u64),
    /// empty, non-hex characters, or wider than 64 bits: must be an error
    Reject,
}

fn hex_expect(s: &str) -> HexExpect {
    let body = s.strip_prefix('+').unwrap_or(s);
    if body.is_empty() || !body.bytes().all(|b| b.is_ascii_hexdigit()) {
        return HexExpect::Reject;
    }
    let mut v: u128 = 0;
    for b in body.bytes() {
        v = v * 16 + (b as char).to_digit(16).unwrap() as u128;
        if v > u64::MAX as u128 {
            return HexExpect::Reject;
        }
    }
    let canonical_form = s.len() <= 16 && s.bytes().all(|b| b.is_ascii_digit() || (b'a'..=b'f').contains(&b));
    if canonical_form {
        HexExpect::Must(v as u64)
    } else {
        HexExpect::May(v as u64)
    }
}

pub fn check_hex_string(run: &mut Run, s: &str) {
    run.evaluations += 1;
    let case = || json!({ "string": s, "bytes": s.bytes().map(|b| format!("{b:02x}")).collect::<String>() });
    let got = match guard(|| a5::hex_to_u64(s)) {
        Ok(r) => r,
        Err(e) => {
            run.violation("C05.hex_parse", case(), format!("hex_to_u64 {e}"));
            return;
        }
    };
    let want = hex_expect(s);
    if run.wants_sample("hex_string") {
        run.sample("hex_string", || json!({"string": s, "hex_to_u64": format!("{:?}", got), "expected": format!("{:?}", want)}));
    }
    match (got, want) {
        (Ok(a), HexExpect::Must(b)) | (Ok(a), HexExpect::May(b)) if a == b => run.count("hex.parsed_ok"),
        (Err(_), HexExpect::Reject) => run.count("hex.rejected"),
        (Err(_), HexExpect::May(_)) => run.count("hex.rejected_unpinned_form"),
        (Ok(a), HexExpect::Must(b)) | (Ok(a), HexExpect::May(b)) => run.violation("C05.hex_parse", case(), format!("parsed {} but the value is {}", hu(a), hu(b))),
        (Ok(a), HexExpect::Reject) => run.violation("C05.hex_parse", case(), format!("accepted an invalid / too wide string as {}", hu(a))),
        (Err(e), HexExpect::Must(b)) => run.violation("C05.hex_parse", case(), format!("rejected a valid string (value {}): {e}", hu(b))),
    }
    let mut h = 11u64;
    for b in s.bytes() {
        h = mix(h, b as u64);
    }
    run.nontrivial(h);
}

fn random_string(rng: &mut Rng) -> String {
    const ALPHA: [&str; 40] = [
        "0", "1", "2", "3", "4", "5", "6", "7", "8", "9", "a", "b", "c", "d", "e", "f", "A", "B", "F", "g", "G", "x", "X", "0x", "+", "-", " ", "\t", "\n", "\0", "_", ".", "é", "ｆ", "٣",
        "𝟘", "f", "f", "0", "f",
    ];
    let len = match rng.below(6) {
        0 => rng.below(3),
        1 => 15 + rng.below(4),
        2 => 30 + rng.below(40),
        _ => 1 + rng.below(16),
    };
    let hexy = rng.chance(0.6);
    let mut s = String::new();
    for _ in 0..len {
        if hexy && rng.chance(0.93) {
            s.push_str(ALPHA[rng.usize(16)]);
        } else {
            s.push_str(ALPHA[rng.usize(ALPHA.len())]);
        }
    }
    s
}

/// every id handed back by a public call must be canonical (the filter of DESIGN §2.2)
pub fn filter_ids(run: &mut Run, call: &str, ids: &[u64], case: impl Fn() -> Value) {
    for &id in ids {
        run.evaluations += 1;
        run.count("canonical_filter.ids");
        if !is_canonical(id) {
            run.violation("C05.canonical_return", case(), format!("{call} returned {} which is not in canonical form", hu(id)));
            return;
        }
    }
}

fn api_workload(run: &mut Run, rng: &mut Rng, fr: &gen::Frame, n: u64) {
    for _ in 0..n {
        let class = *rng.pick(&gen::POINT_CLASSES);
        let (lon, lat) = gen::point(rng, fr, class);
        let res = gen::random_res(rng);
        let Ok(id) = lookup(lon, lat, res) else { continue };
        filter_ids(run, "lonlat_to_cell", &[id], || json!({"lon": fj(lon), "lat": fj(lat), "res": res}));
        if run.wants_sample("canonical_filter") {
            run.sample("canonical_filter", || json!({"call": "lonlat_to_cell", "lon": lon, "lat": lat, "res": res, "returned": hu(id), "decodes_to": format!("{:?}", decode(id))}));
        }
        let c = gen::random_cell(rng, res);
        let cid = encode(c);
        let t = rng.below((res + 2) as u64) as i32 - 1;
        if let Ok(p) = parent(cid, Some(t)) {
            filter_ids(run, "cell_to_parent", &[p], || json!({"id": hu(cid), "target": t}));
        }
        let t = (res + rng.below(4) as i32).min(MAX_RES);
        if let Ok(k) = children(cid, Some(t)) {
            filter_ids(run, "cell_to_children", &k, || json!({"id": hu(cid), "target": t}));
        }
        // the same two calls on a non-canonical spelling the library accepts (one stray bit below the marker): whatever it
        // hands back must still be canonical - ids built arithmetically from the raw argument would carry the stray bit along
        if let Some(w) = crate::orc::stray_alias(rng, c) {
            let t = rng.below((res + 2) as u64) as i32 - 1;
            if let Ok(p) = parent(w, Some(t)) {
                run.count("canonical_filter.calls_on_alias_spellings");
                filter_ids(run, "cell_to_parent", &[p], || json!({"id": hu(w), "alias_of": hu(cid), "target": t}));
            }
            let t = (res + rng.below(4) as i32).min(MAX_RES);
            if let Ok(k) = children(w, Some(t)) {
                run.count("canonical_filter.calls_on_alias_spellings");
                filter_ids(run, "cell_to_children", &k, || json!({"id": hu(w), "alias_of": hu(cid), "target": t}));
            }
        }
        if rng.chance(0.1) {
            let flavour = *rng.pick(&["antichain", "lowres", "overlap", "complete"]);
            let set: Vec<u64> = gen::cell_set(rng, flavour).iter().map(|c| encode(*c)).collect();
            if let Ok(o) = compact(&set) {
                filter_ids(run, "compact", &o, || json!({"ids": ids_json(&set)}));
                let r = set.iter().map(|i| decode(*i).unwrap().res).max().unwrap();
                if o.iter().map(|i| fanout(decode(*i).map(|c| c.res).unwrap_or(r), r)).sum::<u128>() <= 1 << 14 {
                    if let Ok(u) = uncompact(&o, r) {
                        filter_ids(run, "uncompact", &u, || json!({"ids": ids_json(&o), "target": r}));
                    }
                }
            }
        }
    }
    if let Ok(r0) = flatten(guard(a5::get_res0_cells)) {
        filter_ids(run, "get_res0_cells", &r0, || json!({}));
    }
}

fn run(ctx: &Ctx) -> Run {
    silence_panics();
    let exhaustive_to = if ctx.quick() { 9 } else { 11 };
    let threads = ctx.threads;
    let mut out = parallel(threads, |w, run| {
        let mut rng = ctx.rng("C05", w);
        let fr = gen::Frame::new();
        // (1) exhaustive tuples: resolution r is split over workers by quintant index
        let mut seen: HashSet<u64> = HashSet::new();
        let mut tuples = 0u64;
        for res in -1..=exhaustive_to {
            for (k, c0) in children_at(WORLD, res.min(1)).into_iter().enumerate() {
                if k % threads != w {
                    continue;
                }
                if res <= 1 {
                    if let Some(id) = check_tuple(run, c0) {
                        seen.insert(id);
                        tuples += 1;
                    }
                    continue;
                }
                for s in 0..(1u64 << (2 * (res - 1))) {
                    if let Some(id) = check_tuple(run, MCell::new(res, c0.face, c0.q, s)) {
                        seen.insert(id);
                        tuples += 1;
                    }
                }
            }
        }
        if seen.len() as u64 != tuples {
            run.violation("C05.injective", json!({"worker": w}), format!("{} tuples produced only {} distinct ids", tuples, seen.len()));
        }
        run.countn("exhaustive.tuples", tuples);
        run.countn("exhaustive.distinct_ids", seen.len() as u64);
        drop(seen);
        // (2) deep resolutions: every face x quintant x pattern positions
        let n_random = ctx.n(2_000, 20_000) / threads as u64 + 1;
        for res in (exhaustive_to + 1)..=29 {
            for f in 0..12u8 {
                for q in 0..5u8 {
                    if (f as usize * 5 + q as usize) % threads != w {
                        continue;
                    }
                    for pat in gen::S_PATTERNS {
                        for _ in 0..4 {
                            let s = gen::s_pattern(&mut rng, (res - 1) as u32, pat);
                            check_tuple(run, MCell::new(res, f, q, s));
                            check_hex_value(run, encode(MCell::new(res, f, q, s)));
                        }
                    }
                }
            }
            for _ in 0..n_random {
                let c = gen::random_cell(&mut rng, res);
                check_tuple(run, c);
                run.count("deep.random_tuples");
            }
        }
        // (2b) tuples in a random order that mixes faces and resolutions from one call to the next (an encoder must not care
        // what it encoded before)
        for _ in 0..ctx.n(400_000, 8_000_000) / threads as u64 {
            let res = rng.below(31) as i32 - 1;
            let c = gen::random_cell(&mut rng, res);
            check_tuple(run, c);
            run.count("shuffled.random_tuples");
        }
        // (3) hex codec
        if w == 0 {
            for k in 0..64 {
                check_hex_value(run, 1u64 << k);
                check_hex_value(run, u64::MAX >> k);
                check_hex_value(run, u64::MAX << k);
            }
            check_hex_value(run, 0);
            for s in ["", "0", "00", "+", "+f", "-1", "0x10", "ffffffffffffffff", "10000000000000000", "fffffffffffffffff", "00000000000000000001", " 1", "1 ", "F", "g", "١", "ｆｆ"] {
                check_hex_string(run, s);
            }
        }
        for _ in 0..ctx.n(6_000_000, 120_000_000) / threads as u64 {
            check_hex_value(run, rng.next());
            if rng.chance(0.3) {
                let class = *rng.pick(&gen::HOSTILE_ID_CLASSES);
                let id = gen::hostile_id(&mut rng, class);
                check_hex_value(run, id);
            }
        }
        for _ in 0..ctx.n(1_000_000, 20_000_000) / threads as u64 {
            let s = random_string(&mut rng);
            check_hex_string(run, &s);
        }
        // (4) canonical-form filter over the public API
        api_workload(run, &mut rng, &fr, ctx.n(100_000, 3_000_000) / threads as u64);
    });
    let want: u128 = (-1..=exhaustive_to).map(num_cells).sum();
    if out.counters.get("exhaustive.tuples").copied().unwrap_or(0) as u128 != want {
        out.inconclusive(format!("exhaustive enumeration covered {:?} of {want} tuples", out.counters.get("exhaustive.tuples")));
    }
    out.note(format!("exhaustive: every tuple of resolution -1..={exhaustive_to} ({want} tuples) was encoded, decoded and checked for distinctness"));
    out
}

fn replay(check: &str, case: &Value, run: &mut Run) -> Option<()> {
    if !check.starts_with("C05.") {
        return None;
    }
    if let Some(s) = case.get("string").and_then(|s| s.as_str()) {
        check_hex_string(run, s);
        println!("replay: hex_to_u64({s:?}) = {:?}", guard(|| a5::hex_to_u64(s)));
    } else if let Some(v) = case.get("value") {
        let x = parse_hex_u64(v)?;
        check_hex_value(run, x);
        println!("replay: u64_to_hex({}) = {:?}", hu(x), guard(|| a5::u64_to_hex(x)));
    } else if case.get("face").is_some() {
        let c = MCell::new(case["res"].as_i64()? as i32, case["face"].as_u64()? as u8, case["q"].as_u64()? as u8, parse_hex_u64(&case["s"])?);
        check_tuple(run, c);
        println!("replay: serialize({c:?}) = {:?}, model {}", guard(|| serialize(&to_a5(c))), hu(encode(c)));
    } else {
        println!("replay: canonical-return cases are re-run by the workload (./check C05 quick)");
        let mut rng = Rng::stream(1, "C05", 0);
        api_workload(run, &mut rng, &gen::Frame::new(), 20_000);
    }
    Some(())
}
