//! C20 — numeric id order is compatible with the hierarchy from the quintant level down (DESIGN §6 C20)
use crate::gen;
use crate::model::*;
use crate::mon::Monitor;
use crate::orc::*;
use crate::report::*;
use crate::rng::{mix, Rng};
use crate::Ctx;
use serde_json::{json, Value};

pub const MONITOR: Monitor = Monitor {
    id: "C20",
    rule: "one evaluation = one ordered pair a < b of same-resolution ids (r >= 2) or one cell with its subtree: ancestors obtained from \
           cell_to_parent at every level 1..r must be ordered the same way, descendants obtained from cell_to_children (depth <= 4) of a \
           must all precede those of b, and the descendants of a cell must form one id interval that excludes its same-resolution \
           neighbours' descendants; siblings must be consecutive among same-resolution ids; non-trivial = distinct pairs / cells whose \
           ancestors differ at some level (not just the last digit)",
    run,
    replay,
};

/// the same-resolution cell `delta` positions after c in (face, quintant, s) order, if any
fn shifted(c: MCell, delta: i64) -> Option<MCell> {
    let per_q: i128 = 1i128 << (2 * (c.res - 1).max(0));
    let pos: i128 = (5 * c.face as i128 + c.q as i128) * per_q + c.s as i128 + delta as i128;
    if pos < 0 || pos >= 60 * per_q {
        return None;
    }
    let k = (pos / per_q) as u8;
    Some(MCell::new(c.res, k / 5, k % 5, (pos % per_q) as u64))
}

pub fn check_pair(run: &mut Run, a: MCell, b: MCell, depth: i32) {
    run.evaluations += 1;
    let (ia, ib) = (encode(a), encode(b));
    // history: for a third of the pairs a base cell is handled first - the one whose 6-bit field equals that of `a` when
    // there is one (the same leading bits mean 'face' at resolution 0 and '5 * face + quintant' below)
    if (ia >> 9) % 3 == 0 {
        let top6 = (ia >> 58) as u8;
        let base = encode(MCell::new(0, if top6 < 12 { top6 } else { top6 % 12 }, 0, 0));
        let _ = children(base, None);
        run.count("pairs.preceded_by_a_base_cell_call");
    }
    if ia == ib {
        return;
    }
    let (a, b_cell, ia, ib) = if ia < ib { (a, b, ia, ib) } else { (b, a, ib, ia) };
    let case = || json!({"a": hu(ia), "b": hu(ib), "res": a.res, "depth": depth});
    let mut differs_above = false;
    for t in 1..=a.res {
        match (parent(ia, Some(t)), parent(ib, Some(t))) {
            (Ok(pa), Ok(pb)) => {
                // the cell lies inside the id interval of what is reported as its ancestor (by the layout model: the ancestor's
                // first and last descendant of the cell's resolution)
                for (x, px) in [(a, pa), (b_cell, pb)] {
                    let ok = decode(px).filter(|p| p.res == t).map(|p| {
                        let shift = 2 * (x.res - t) as u32;
                        let (lo, hi) = if t >= 1 { (encode(MCell::new(x.res, p.face, p.q, if shift >= 64 { 0 } else { p.s << shift })), encode(MCell::new(x.res, p.face, p.q, if shift >= 64 { u64::MAX } else { (p.s << shift) | ((1u64 << shift) - 1) }))) } else { (0, u64::MAX) };
                        let ix = encode(x);
                        t == 0 || (ix >= lo && ix <= hi)
                    });
                    if ok == Some(false) {
                        run.violation("C20.interval", case(), format!("cell {} lies outside the id interval of {} which cell_to_parent reports as its ancestor at resolution {t}", hu(encode(x)), hu(px)));
                        return;
                    }
                }
                if pa > pb {
                    run.violation("C20.ancestors", case(), format!("a < b but ancestor at {t}: {} > {}", hu(pa), hu(pb)));
                    return;
                }
                if t < a.res && pa != pb {
                    differs_above = true;
                }
            }
            (x, y) => {
                run.violation("C20.ok", case(), format!("cell_to_parent failed: {:?} {:?}", x.err(), y.err()));
                return;
            }
        }
    }
    // the default request (None = one level up), also for an accepted non-canonical spelling of the smaller cell: the word still
    // sorts before b (the stray bit sits below the marker), so what is reported as its parent must not sort after b's parent
    let mut spelt_a = ia;
    if (ia >> 7) % 4 == 0 && a.res >= 1 {
        let mut arng = Rng::stream(ia, "C20.alias", ib);
        let wa = stray_alias(&mut arng, a).filter(|w| *w < ib).unwrap_or(ia);
        spelt_a = wa;
        run.count(if wa != ia { "default_parent.alias_spelling_of_a" } else { "default_parent.canonical" });
        if let (Ok(pa), Ok(pb)) = (parent(wa, None), parent(ib, None)) {
            let want = parent_at(a, a.res - 1).map(encode);
            if Some(pa) != want || pa > pb {
                run.violation("C20.default_parent", json!({"a": hu(wa), "b": hu(ib), "res": a.res, "depth": depth, "canonical_a": hu(ia)}), format!("cell_to_parent({}, None) = {} (the cell's parent is {:?}); b's parent is {}: a < b but the reported parents do not keep that order or are not the parents", hu(wa), hu(pa), want.map(hu), hu(pb)));
                return;
            }
        }
    }
    let t = (a.res + depth).min(MAX_RES);
    if t > a.res {
        // (descendants of a are asked for under the spelling chosen above when the library accepts it for this call)
        let ka = match children(spelt_a, Some(t)) {
            Ok(k) => Ok(k),
            Err(_) if spelt_a != ia => children(ia, Some(t)),
            Err(e) => Err(e),
        };
        match (ka, children(ib, Some(t))) {
            (Ok(ka), Ok(kb)) => {
                let max_a = ka.iter().max().unwrap();
                let min_b = kb.iter().min().unwrap();
                if max_a >= min_b {
                    run.violation("C20.descendants", case(), format!("a < b but a descendant of a at {t} ({}) does not precede one of b ({})", hu(*max_a), hu(*min_b)));
                }
            }
            (x, y) => run.violation("C20.ok", case(), format!("cell_to_children failed: {:?} {:?}", x.err(), y.err())),
        }
    }
    if differs_above {
        run.nontrivial(mix(ia, ib));
        if run.wants_sample("pair") {
            run.sample("pair", || json!({"a": hu(ia), "b": hu(ib), "res": a.res, "descendant_depth": depth}));
        }
    }
}

/// descendants of c occupy one id interval that contains no cell outside its subtree; siblings are consecutive
pub fn check_interval(run: &mut Run, c: MCell, depth: i32) {
    run.evaluations += 1;
    let id = encode(c);
    let t = (c.res + depth).min(MAX_RES);
    let case = || json!({"cell": hu(id), "res": c.res, "depth": depth});
    let kids = match children(id, Some(t)) {
        Ok(k) => k,
        Err(e) => {
            run.violation("C20.ok", case(), format!("cell_to_children failed: {e}"));
            return;
        }
    };
    let (lo, hi) = (*kids.iter().min().unwrap(), *kids.iter().max().unwrap());
    // the ends of the interval are descendants themselves
    for w in [lo, hi] {
        if decode(w).filter(|k| k.res == t).and_then(|k| parent_at(k, c.res)) != Some(c) {
            run.violation("C20.interval", case(), format!("the descendants' id interval [{}, {}] ends at {} which is not a descendant at resolution {t}", hu(lo), hu(hi), hu(w)));
            return;
        }
    }
    // the same-resolution neighbours just outside the subtree (both sides, also across quintant / face borders)
    let first = children_at(c, t)[0];
    let n = kids.len() as i64;
    for (delta, side) in [(-1i64, "before"), (n, "after"), (-2, "before"), (n + 1, "after")] {
        if let Some(o) = shifted(first, delta) {
            let oid = encode(o);
            if oid >= lo && oid <= hi {
                run.violation("C20.interval", case(), format!("cell {} ({side} the subtree, not a descendant) lies inside the descendants' id interval [{}, {}]", hu(oid), hu(lo), hu(hi)));
            }
            // and the library agrees that it is not a descendant
            if let Ok(p) = parent(oid, Some(c.res)) {
                if p == id {
                    run.violation("C20.interval", case(), format!("model neighbour {} has the cell as ancestor", hu(oid)));
                }
            }
        }
    }
    // intervals of the subtree's levels are nested: every descendant at every intermediate level lies in [lo, hi]'s prefix order
    if t > c.res + 1 {
        if let Ok(mid) = children(id, Some(c.res + 1)) {
            let mut sorted = mid.clone();
            sorted.sort_unstable();
            let mut prev_hi: Option<u64> = None;
            for m in &sorted {
                // only a real child is expanded further (a word that is not one may read as a much coarser cell)
                if decode(*m).and_then(|k| parent_at(k, c.res)) != Some(c) {
                    run.violation("C20.child_ids", case(), format!("cell_to_children returned {} which is not a child of the cell", hu(*m)));
                    break;
                }
                if let Ok(sub) = children(*m, Some(t)) {
                    let (l, h) = (*sub.iter().min().unwrap(), *sub.iter().max().unwrap());
                    if let Some(p) = prev_hi {
                        if l <= p {
                            run.violation("C20.nested", case(), format!("descendant intervals of consecutive siblings overlap at {}", hu(*m)));
                        }
                    }
                    prev_hi = Some(h);
                }
            }
        }
    }
    // siblings consecutive among same-resolution ids (r >= 2: stride of one position)
    if c.res >= 1 && c.res < MAX_RES {
        if let Ok(sibs) = children(id, Some(c.res + 1)) {
            let mut s = sibs.clone();
            s.sort_unstable();
            let stride = 1u64 << (marker_bit(c.res + 1) + 1);
            if s.windows(2).any(|w| w[1] - w[0] != stride) {
                run.violation("C20.siblings_adjacent", case(), format!("children {:?} are not consecutive same-resolution ids (stride {})", ids_json(&s), hu(stride)));
            }
        }
    }
    if depth >= 2 {
        run.nontrivial(mix(id, depth as u64));
        if run.wants_sample("interval") {
            run.sample("interval", || json!({"cell": hu(id), "res": c.res, "depth": depth, "descendant_interval": [hu(lo), hu(hi)], "descendants": kids.len()}));
        }
    }
}

fn straddling_pair(rng: &mut Rng, res: i32) -> (MCell, MCell) {
    // positions straddling a parent boundary at a random level: ...0333 | ...1000
    let c = gen::random_cell(rng, res);
    let level = 1 + rng.below((res - 1) as u64) as u32;
    let mask = (1u64 << (2 * level)) - 1;
    let a = MCell::new(res, c.face, c.q, c.s | mask);
    let b = shifted(a, 1).unwrap_or(a);
    (a, b)
}

fn run(ctx: &Ctx) -> Run {
    silence_panics();
    let threads = ctx.threads;
    let exhaustive_to: i32 = if ctx.quick() { 7 } else { 9 };
    let mut out = parallel(threads, |w, run| {
        let mut rng = ctx.rng("C20", w);
        // (1) exhaustive adjacent positions for small resolutions (incl. across quintant and face borders)
        // (resolution 1 included: the quintants themselves are the top of "from the quintant level down", and the only cells with
        // a stray position above their marker)
        for res in 1..=exhaustive_to {
            let n = num_cells(res) as i64;
            let first = MCell::new(res, 0, 0, 0);
            let mut k = w as i64;
            while k + 1 < n {
                let a = shifted(first, k).unwrap();
                let b = shifted(first, k + 1).unwrap();
                check_pair(run, a, b, if res <= 4 { 2 } else { 1 });
                run.count("exhaustive.adjacent_pairs");
                if k % 3 == 0 {
                    check_interval(run, a, 2);
                }
                k += threads as i64;
            }
        }
        // every quintant and base cell as subtree root
        if w == 0 {
            for f in 0..12u8 {
                for q in 0..5u8 {
                    for d in 1..=4 {
                        check_interval(run, MCell::new(1, f, q, 0), d);
                    }
                }
            }
        }
        // (2) random pairs, straddling pairs, all resolutions
        let n = ctx.n(3_000_000, 60_000_000) / threads as u64;
        for _ in 0..n {
            // error paths must leave nothing behind: now and then a few rejected calls precede the judged ones
            if rng.below(64) == 0 {
                crate::orc::failed_call_history(&mut rng);
            }
            let res = 2 + rng.below(28) as i32;
            let depth = 1 + rng.below(4) as i32;
            match rng.below(4) {
                0 => {
                    let (a, b) = (gen::random_cell(&mut rng, res), gen::random_cell(&mut rng, res));
                    check_pair(run, a, b, depth);
                    run.count("pairs.random");
                }
                1 => {
                    let (a, b) = straddling_pair(&mut rng, res);
                    check_pair(run, a, b, depth);
                    run.count("pairs.straddling_parent_boundary");
                }
                2 => {
                    // same quintant, nearby positions
                    let a = gen::random_cell(&mut rng, res);
                    let b = shifted(a, 1 + rng.below(64) as i64).unwrap_or(a);
                    check_pair(run, a, b, depth);
                    run.count("pairs.nearby");
                }
                _ => {
                    let r = 1 + rng.below(29) as i32;
                    let c = gen::random_cell(&mut rng, r);
                    check_interval(run, c, depth);
                    run.count("intervals");
                }
            }
            run.count(&format!("res.{res:02}"));
        }
    });
    out.note(format!("exhaustive: all adjacent position pairs of resolutions 2..={exhaustive_to}"));
    out
}

fn replay(check: &str, case: &Value, run: &mut Run) -> Option<()> {
    if !check.starts_with("C20.") {
        return None;
    }
    let depth = case["depth"].as_i64().unwrap_or(2) as i32;
    if let Some(c) = case.get("cell") {
        let c = decode(parse_hex_u64(c)?)?;
        check_interval(run, c, depth);
    } else {
        let a = decode(parse_hex_u64(case.get("a")?)?)?;
        let b = decode(parse_hex_u64(case.get("b")?)?)?;
        check_pair(run, a, b, depth);
    }
    println!("replay: re-evaluated {}", case);
    Some(())
}
