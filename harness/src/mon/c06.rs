//! C06 — cell ids keep denoting the same place as in the reference release (DESIGN §6 C06)
use crate::geom::*;
use crate::model::*;
use crate::mon::Monitor;
use crate::orc::*;
use crate::report::*;
use crate::rng::mix;
use crate::{Ctx, Tier};
use serde_json::{json, Value};

pub const MONITOR: Monitor = Monitor {
    id: "C06",
    rule: "one evaluation = one record of the frozen table of the reference release (golden/*.tsv) replayed against the current tree: a \
           lookup record must give the recorded id, a geometry record must give the recorded centre and corners to within 1e-9 degrees \
           (1.745e-11 rad, great-circle); non-trivial = distinct records of resolution >= 2 (below that there is no curve)",
    run,
    replay,
};

const TOL_RAD: f64 = 1e-9 * std::f64::consts::PI / 180.0;

fn bits(s: &str) -> Option<f64> {
    u64::from_str_radix(s, 16).ok().map(f64::from_bits)
}

pub fn check_lookup_record(run: &mut Run, lon: f64, lat: f64, res: i32, want: u64, class: &str) {
    run.evaluations += 1;
    let case = || json!({"kind": "L", "lon": fj(lon), "lat": fj(lat), "res": res, "id": hu(want), "class": class});
    match lookup(lon, lat, res) {
        Ok(id) if id == want => {}
        Ok(id) => run.violation("C06.lookup", case(), format!("lonlat_to_cell({lon}, {lat}, {res}) = {} but the reference release answered {} (and contained the point)", hu(id), hu(want))),
        Err(e) => run.violation("C06.lookup", case(), format!("lonlat_to_cell({lon}, {lat}, {res}) failed: {e}; the reference release answered {}", hu(want))),
    }
    if res >= 2 {
        run.nontrivial(mix(mix(lon.to_bits(), lat.to_bits()), res as u64));
    }
    run.count(&format!("lookup.res{res:02}"));
    if run.wants_sample("lookup") && res >= 5 {
        run.sample("lookup", || json!({"lon": lon, "lat": lat, "res": res, "reference_id": hu(want), "class": class}));
    }
}

pub fn check_geometry_record(run: &mut Run, id: u64, centre: (f64, f64), corners: &[(f64, f64)], tie_in: bool) {
    run.evaluations += 1;
    let case = || json!({"kind": "G", "id": hu(id), "centre": [fj(centre.0), fj(centre.1)], "corners": corners.iter().map(|c| json!([fj(c.0), fj(c.1)])).collect::<Vec<_>>()});
    let res = decode(id).map(|c| c.res).unwrap_or(-1);
    match flatten(guard(|| a5::cell_to_lonlat(id))) {
        Ok(c) => {
            let d = chord_angle(unit_from_lonlat(c.longitude(), c.latitude()), unit_from_lonlat(centre.0, centre.1));
            if run.margin("centre_displacement_rad", d, TOL_RAD, case) {
                run.violation("C06.centre", case(), format!("centre of {} is now ({}, {}), the reference reported ({}, {}): {:.3e} rad apart (bound {:.3e})", hu(id), c.longitude(), c.latitude(), centre.0, centre.1, d, TOL_RAD));
            }
        }
        Err(e) => run.violation("C06.centre", case(), format!("cell_to_lonlat({}) failed: {e}", hu(id))),
    }
    // accepted non-canonical spellings of the id (one stray bit below the marker; the marker scan is the reference release's,
    // unchanged since) denote the same place: where the library answers at all, it must answer with the reference centre
    if let Some(c) = decode(id).filter(|c| c.res >= 2) {
        let mut arng = crate::rng::Rng::stream(id, "C06.alias", 0);
        for _ in 0..2 {
            if let Some(w) = stray_alias(&mut arng, c) {
                run.count("alias_spellings.tried");
                if let Ok(p) = flatten(guard(|| a5::cell_to_lonlat(w))) {
                    run.count("alias_spellings.answered");
                    let d = chord_angle(unit_from_lonlat(p.longitude(), p.latitude()), unit_from_lonlat(centre.0, centre.1));
                    if run.margin("alias_centre_displacement_rad", d, TOL_RAD, case) {
                        run.violation("C06.alias_centre", case(), format!("{} is accepted as a spelling of {} but its centre is {:.3e} rad from the centre the reference reported for that cell", hu(w), hu(id), d));
                    }
                }
            }
        }
    }
    match flatten(guard(|| a5::cell_to_boundary(id, Some(a5::core::cell::CellToBoundaryOptions { closed_ring: false, segments: Some(1) })))) {
        Ok(ring) => {
            if ring.len() != corners.len() {
                run.violation("C06.corners", case(), format!("{} now has {} corners, the reference reported {}", hu(id), ring.len(), corners.len()));
            } else {
                let now: Vec<V3> = ring.iter().map(|p| unit_from_lonlat(p.longitude(), p.latitude())).collect();
                let mut worst = 0.0f64;
                for k in corners {
                    let ku = unit_from_lonlat(k.0, k.1);
                    worst = worst.max(now.iter().map(|u| chord_angle(*u, ku)).fold(f64::INFINITY, f64::min));
                }
                if run.margin("corner_displacement_rad", worst, TOL_RAD, case) {
                    run.violation("C06.corners", case(), format!("a corner the reference reported for {} is {:.3e} rad from every corner reported now (bound {:.3e})", hu(id), worst, TOL_RAD));
                }
            }
        }
        Err(e) => run.violation("C06.corners", case(), format!("cell_to_boundary({}) failed: {e}", hu(id))),
    }
    if tie_in && res >= 0 {
        match lookup(centre.0, centre.1, res) {
            Ok(back) if back == id => run.count("tie_in.recorded_centre_maps_to_recorded_id"),
            other => run.violation("C06.centre_lookup", case(), format!("the centre the reference reported for {} is now looked up as {:?}", hu(id), other.map(hu))),
        }
    }
    if res >= 2 {
        run.nontrivial(mix(id, 6));
    }
    run.count(&format!("geometry.res{res:02}"));
    if run.wants_sample("geometry") && res >= 5 {
        run.sample("geometry", || json!({"id": hu(id), "reference_centre": [centre.0, centre.1], "corners": corners.len()}));
    }
}

fn run(ctx: &Ctx) -> Run {
    silence_panics();
    let dir = ctx.root.join("golden");
    let lookups = std::fs::read_to_string(dir.join("lookups.tsv"));
    let geometry = std::fs::read_to_string(dir.join("geometry.tsv"));
    let (lookups, geometry) = match (lookups, geometry) {
        (Ok(a), Ok(b)) => (a, b),
        _ => {
            let mut r = Run::new();
            r.inconclusive(format!("golden table not found under {}", dir.display()));
            return r;
        }
    };
    // thorough tier: a second, much larger table recorded at run time from the reference release rebuilt out of /repo's
    // history (see /verif/check); absent in the quick tier
    let extra_dir = std::env::var("VERIF_GOLDEN_EXTRA").ok();
    let (extra_l, extra_g) = match &extra_dir {
        Some(d) => (std::fs::read_to_string(format!("{d}/lookups.tsv")).unwrap_or_default(), std::fs::read_to_string(format!("{d}/geometry.tsv")).unwrap_or_default()),
        None => (String::new(), String::new()),
    };
    // second frozen table: inputs at the limits of the valid domain (exact poles, the antimeridian written both ways, whole
    // turns, signed zeros, the smallest magnitudes), recorded from the same reference release (golden/README.md)
    let limits_l = std::fs::read_to_string(dir.join("limits").join("lookups.tsv")).unwrap_or_default();
    let limits_g = std::fs::read_to_string(dir.join("limits").join("geometry.tsv")).unwrap_or_default();
    let frozen_l = lookups.lines().chain(limits_l.lines()).filter(|l| l.starts_with("L ")).count();
    let frozen_g = geometry.lines().chain(limits_g.lines()).filter(|l| l.starts_with("G ")).count();
    let llines: Vec<&str> = lookups.lines().chain(limits_l.lines()).chain(extra_l.lines()).filter(|l| l.starts_with("L ")).collect();
    let glines: Vec<&str> = geometry.lines().chain(limits_g.lines()).chain(extra_g.lines()).filter(|l| l.starts_with("G ")).collect();
    let threads = ctx.threads;
    let tie_in = ctx.tier == Tier::Thorough;
    let mut out = parallel(threads, |w, run| {
        for (i, line) in llines.iter().enumerate() {
            if i % threads != w {
                continue;
            }
            let f: Vec<&str> = line.split_whitespace().collect();
            let parsed = (|| Some((bits(f.get(1)?)?, bits(f.get(2)?)?, f.get(3)?.parse::<i32>().ok()?, u64::from_str_radix(f.get(4)?, 16).ok()?)))();
            match parsed {
                Some((lon, lat, res, id)) => check_lookup_record(run, lon, lat, res, id, f.get(5).copied().unwrap_or("?")),
                None => run.inconclusive(format!("unparsable golden line {i} of lookups.tsv")),
            }
        }
        for (i, line) in glines.iter().enumerate() {
            if i % threads != w {
                continue;
            }
            let f: Vec<&str> = line.split_whitespace().collect();
            let parsed = (|| {
                let id = u64::from_str_radix(f.get(1)?, 16).ok()?;
                let centre = (bits(f.get(2)?)?, bits(f.get(3)?)?);
                let n: usize = f.get(4)?.parse().ok()?;
                let mut corners = Vec::new();
                for k in 0..n {
                    corners.push((bits(f.get(5 + 2 * k)?)?, bits(f.get(6 + 2 * k)?)?));
                }
                Some((id, centre, corners))
            })();
            match parsed {
                Some((id, centre, corners)) => check_geometry_record(run, id, centre, &corners, tie_in),
                None => run.inconclusive(format!("unparsable golden line {i} of geometry.tsv")),
            }
        }
    });
    for res in 0..=29 {
        for kind in ["lookup", "geometry"] {
            if out.counters.get(&format!("{kind}.res{res:02}")).copied().unwrap_or(0) == 0 {
                out.inconclusive(format!("golden table has no {kind} record of resolution {res}"));
            }
        }
    }
    out.countn("golden.frozen_lookup_records", frozen_l as u64);
    out.countn("golden.frozen_geometry_records", frozen_g as u64);
    out.countn("golden.runtime_reference_lookup_records", (llines.len() - frozen_l) as u64);
    out.countn("golden.runtime_reference_geometry_records", (glines.len() - frozen_g) as u64);
    if extra_dir.is_some() && llines.len() == frozen_l {
        out.inconclusive("the run-time reference table is empty".to_string());
    }
    out.note("exhaustive over the frozen table: every record was replayed".to_string());
    out
}

fn replay(check: &str, case: &Value, run: &mut Run) -> Option<()> {
    if !check.starts_with("C06.") {
        return None;
    }
    if case["kind"] == "L" {
        let (lon, lat) = (parse_f(&case["lon"])?, parse_f(&case["lat"])?);
        let res = case["res"].as_i64()? as i32;
        let id = parse_hex_u64(&case["id"])?;
        check_lookup_record(run, lon, lat, res, id, "replay");
        println!("replay: lonlat_to_cell = {:?}, reference {}", lookup(lon, lat, res).map(hu), hu(id));
        if let (Some(c), Ok(now)) = (decode(id), lookup(lon, lat, res)) {
            println!("replay: O1(reference cell) = {:?}; O1(current cell) = {:?}", o1(c, lon, lat), decode(now).map(|n| o1(n, lon, lat)));
        }
    } else {
        let id = parse_hex_u64(&case["id"])?;
        let c = case["centre"].as_array()?;
        let centre = (parse_f(&c[0])?, parse_f(&c[1])?);
        let corners: Vec<(f64, f64)> = case["corners"].as_array()?.iter().filter_map(|k| Some((parse_f(&k[0])?, parse_f(&k[1])?))).collect();
        check_geometry_record(run, id, centre, &corners, true);
    }
    Some(())
}
