//! C04 — all cells of a resolution have equal area: sphere area / number of cells (DESIGN §6 C04)
use crate::gen::{self, Frame};
use crate::model::*;
use crate::mon::Monitor;
use crate::orc::*;
use crate::report::*;
use crate::rng::mix;
use crate::Ctx;
use serde_json::{json, Value};

pub const MONITOR: Monitor = Monitor {
    id: "C04",
    rule: "one evaluation = one cell whose reported boundary (64 segments per edge) is re-measured with the independent spherical-area \
           oracle and compared with 4 pi / N(r); or one resolution of the metadata calls compared with the exact integer count; \
           non-trivial = distinct cells of resolution >= 1",
    run,
    replay,
};

/// authalic Earth area the documentation quotes: 4 pi R^2 with R = 6371007.2 m
pub fn authalic_earth_area() -> f64 {
    4.0 * std::f64::consts::PI * 6371007.2 * 6371007.2
}

pub fn check_area(run: &mut Run, c: MCell, class: &str) -> Option<f64> {
    run.evaluations += 1;
    let id = encode(c);
    let case = || json!({"cell": hu(id), "res": c.res, "class": class});
    // for a quarter of the cells the same cell is first asked for with other options (the answer must depend on all arguments)
    if (id >> 3) % 4 == 1 {
        let _ = guard(|| a5::cell_to_boundary(id, Some(a5::core::cell::CellToBoundaryOptions { closed_ring: false, segments: Some(1) })));
        run.count("cells_first_asked_for_with_other_options");
    }
    let ring = match ring_units(id, 64) {
        Ok(r) => r,
        Err(e) => {
            run.violation("C04.ok", case(), format!("cell_to_boundary failed on a valid cell: {e}"));
            return None;
        }
    };
    let area = ring_area(&ring, c.res);
    let want = 4.0 * std::f64::consts::PI / num_cells(c.res) as f64;
    let rel = (area / want - 1.0).abs();
    if run.margin("relative_area_error", rel, 1e-4, case) {
        run.violation("C04.area", case(), format!("area measured from the reported boundary is {:.9e} sr, 4 pi / N({}) = {:.9e} sr: relative error {:.3e} (bound 1e-4)", area, c.res, want, rel));
    }
    // "all cells of a resolution" are cells however their id is spelt: an accepted non-canonical spelling (one stray bit below the
    // marker) of this cell must enclose the same area - where the library answers for it at all
    if mix(id, 0xa4) % 8 == 0 {
        let mut arng = crate::rng::Rng::stream(id, "C04.alias", 0);
        if let Some(w) = stray_alias(&mut arng, c) {
            run.count("alias_spellings.tried");
            if let Ok(ring_w) = ring_units(w, 64) {
                run.count("alias_spellings.answered");
                let rel_w = (ring_area(&ring_w, c.res) / want - 1.0).abs();
                if run.margin("relative_area_error.alias_spelling", rel_w, 1e-4, case) {
                    run.violation("C04.alias_area", json!({"cell": hu(id), "alias": hu(w), "res": c.res}), format!("{} is accepted as a spelling of {} (resolution {}) but its reported boundary encloses an area off by {:.3e} (relative)", hu(w), hu(id), c.res, rel_w));
                }
            }
        }
    }
    if c.res >= 1 {
        run.nontrivial(mix(id, 4));
    }
    if run.wants_sample(class) {
        run.sample(class, || json!({"cell": hu(id), "res": c.res, "measured_area_sr": area, "expected_sr": want, "relative_error": area / want - 1.0, "ring_points": ring.len()}));
    }
    Some(area)
}

pub fn check_metadata(run: &mut Run) {
    let earth = authalic_earth_area();
    for res in -1..=29 {
        run.evaluations += 1;
        let case = || json!({"res": res});
        let n = num_cells(res) as f64;
        match guard(|| a5::cell_area(res)) {
            Ok(a) => {
                // (i) the quotient must be that of ONE whole for every resolution (1e-9), (ii) the whole must be the authalic
                // Earth area (1e-7: published values of the authalic radius differ in the 9th digit)
                let whole = guard(|| a5::cell_area(-1)).unwrap_or(f64::NAN);
                let rel = (a * n / whole - 1.0).abs();
                if run.margin("metadata_cell_area_relative_error", rel, 1e-9, case) {
                    run.violation("C04.cell_area", case(), format!("cell_area({res}) = {a:e}; times N({res}) = {:e}, but cell_area(-1) = {whole:e} (relative {rel:.3e})", a * n));
                }
                let rel_abs = (a * n / earth - 1.0).abs();
                if run.margin("metadata_whole_vs_authalic_earth_area", rel_abs, 1e-7, case) {
                    run.violation("C04.cell_area", case(), format!("cell_area({res}) x N = {:e}, authalic Earth area {earth:e} (relative {rel_abs:.3e})", a * n));
                }
            }
            Err(e) => run.violation("C04.ok", case(), format!("cell_area({res}) {e}")),
        }
        if res >= 0 {
            match guard(|| a5::get_num_cells(res)) {
                Ok(got) => {
                    let exact = num_cells(res);
                    let rel = ((got as f64) / (exact as f64) - 1.0).abs();
                    if got as u128 != exact {
                        run.note(format!("get_num_cells({res}) = {got}, exact count {exact} (relative {rel:.1e}; documented JavaScript rounding)"));
                    }
                    if run.margin("metadata_num_cells_relative_error", rel, 1e-12, case) {
                        run.violation("C04.num_cells", case(), format!("get_num_cells({res}) = {got}, the hierarchy has {exact}"));
                    }
                }
                Err(e) => run.violation("C04.ok", case(), format!("get_num_cells({res}) {e}")),
            }
        }
    }
}

fn run(ctx: &Ctx) -> Run {
    silence_panics();
    let threads = ctx.threads;
    let exhaustive_to: i32 = if ctx.quick() { 4 } else { 6 };
    let mut out = parallel(threads, |w, run| {
        let mut rng = ctx.rng("C04", w);
        let fr = Frame::new();
        if w == 0 {
            check_metadata(run);
        }
        // (1) exhaustive + conservation: sums are accumulated in integer femto-steradians so that merging is exact
        for res in 0..=exhaustive_to {
            let mut sum = 0.0f64;
            for (k, c) in children_at(WORLD, res).into_iter().enumerate() {
                if k % threads == w {
                    if let Some(a) = check_area(run, c, "exhaustive") {
                        sum += a;
                    }
                    run.count(&format!("exhaustive.res{res:02}"));
                }
            }
            run.countn(&format!("area_sum_1e-15sr.res{res:02}"), (sum * 1e15).round().max(0.0) as u64);
        }
        // (2) stratified cells at every finer resolution
        let per_res = ctx.n(4_000, 100_000) / threads as u64 + 1;
        for res in (exhaustive_to + 1)..=29 {
            for i in 0..per_res {
                let k = (i as usize * threads + w) % 60;
                let pat = gen::S_PATTERNS[(i as usize / 60 + w) % gen::S_PATTERNS.len()];
                let s = gen::s_pattern(&mut rng, (res - 1) as u32, pat);
                if i % 2 == 1 {
                    prime_history(&mut rng, MCell::new(res, (k / 5) as u8, (k % 5) as u8, s));
                    run.count("stratified.primed_with_a_relative");
                }
                check_area(run, MCell::new(res, (k / 5) as u8, (k % 5) as u8, s), "stratified");
                run.count(&format!("stratified.res{res:02}"));
            }
        }
        // (3) cells at face centres, seams, dodecahedron vertices, poles, antimeridian
        let n = ctx.n(100_000, 4_000_000) / threads as u64;
        for _ in 0..n {
            let class = *rng.pick(&gen::POINT_CLASSES);
            let (lon, lat) = gen::point(&mut rng, &fr, class);
            let res = gen::random_res(&mut rng);
            if let Ok(id) = lookup(lon, lat, res) {
                if let Some(c) = decode(id) {
                    check_area(run, c, class);
                    run.count(&format!("class.{class}"));
                }
            }
        }
        if w == 0 {
            for res in 2..=29 {
                // the five cells around each geographic pole (known_findings.json D5) and around one equatorial face centre
                for (lon, lat) in [(0.0, 90.0), (72.0, 89.9999999999), (144.0, -90.0), (-57.0, -89.99999999)] {
                    for dl in 0..5 {
                        if let Ok(id) = lookup(lon + 72.0 * dl as f64 + 1.0, lat, res) {
                            if let Some(c) = decode(id) {
                                check_area(run, c, "regression.D5");
                            }
                        }
                    }
                }
            }
        }
    });
    for res in 0..=exhaustive_to {
        if out.counters.get(&format!("exhaustive.res{res:02}")).copied().unwrap_or(0) as u128 != num_cells(res) {
            out.inconclusive(format!("exhaustive pass did not visit every cell of resolution {res}"));
            continue;
        }
        let sum = out.counters.get(&format!("area_sum_1e-15sr.res{res:02}")).copied().unwrap_or(0) as f64 * 1e-15;
        let rel = (sum / (4.0 * std::f64::consts::PI) - 1.0).abs();
        if out.margin("conservation_relative_error", rel, 1e-6, || json!({"res": res})) {
            out.violation("C04.conservation", json!({"res": res}), format!("areas of all cells of resolution {res} sum to {sum} sr, the sphere has 4 pi (relative {rel:.3e})"));
        }
    }
    out.note(format!("exhaustive: every cell of resolution 0..={exhaustive_to}, areas sum to 4 pi within 1e-6"));
    out
}

fn replay(check: &str, case: &Value, run: &mut Run) -> Option<()> {
    if !check.starts_with("C04.") {
        return None;
    }
    if let Some(id) = case.get("cell").and_then(parse_hex_u64) {
        let c = decode(id)?;
        let a = check_area(run, c, "replay");
        println!("replay: area of {} = {:?} sr, expected {:e}", hu(id), a, 4.0 * std::f64::consts::PI / num_cells(c.res) as f64);
    } else {
        check_metadata(run);
        println!("replay: metadata re-checked");
    }
    Some(())
}
