//! C18 — the 12-face frame is a regular dodecahedron in the documented orientation (DESIGN §6 C18)
use crate::gen::{self, Frame};
use crate::geom::*;
use crate::model::*;
use crate::mon::c15::to_spherical;
use crate::mon::Monitor;
use crate::orc::*;
use crate::report::*;
use crate::rng::mix;
use crate::Ctx;
use a5::core::origin::{find_nearest_origin, get_origins, quintant_to_segment, segment_to_quintant};
use serde_json::{json, Value};

pub const MONITOR: Monitor = Monitor {
    id: "C18",
    rule: "one evaluation = one pair of base-cell centres (all 66, exhaustive), one face x quintant relabelling (all 60, exhaustive), or one \
           sphere point whose indexing face (lookup at resolution 0 and 1, and find_nearest_origin) is compared with the arg-min of true \
           great-circle distance to the reported centres; non-trivial = distinct points (those within 1e-6 rad of a seam counted \
           separately), pairs and relabellings",
    run,
    replay,
};

pub fn check_frame(run: &mut Run) {
    let ids = match flatten(guard(a5::get_res0_cells)) {
        Ok(v) if v.len() == 12 => v,
        other => {
            run.violation("C18.frame", json!({}), format!("get_res0_cells returned {:?}", other.map(|v| v.len())));
            return;
        }
    };
    let mut cs: Vec<V3> = Vec::new();
    let mut lonlats = Vec::new();
    for id in &ids {
        match flatten(guard(|| a5::cell_to_lonlat(*id))) {
            Ok(p) => {
                lonlats.push((p.longitude(), p.latitude()));
                cs.push(unit_from_lonlat(p.longitude(), p.latitude()));
            }
            Err(e) => {
                run.violation("C18.frame", json!({"cell": hu(*id)}), format!("cell_to_lonlat failed: {e}"));
                return;
            }
        }
    }
    let a = 2f64.atan();
    let allowed = [a, std::f64::consts::PI - a, std::f64::consts::PI];
    for i in 0..12 {
        let mut counts = [0; 3];
        for j in 0..12 {
            if i == j {
                continue;
            }
            let d = angle(cs[i], cs[j]);
            let (k, err) = allowed.iter().enumerate().map(|(k, x)| (k, (d - x).abs())).min_by(|p, q| p.1.partial_cmp(&q.1).unwrap()).unwrap();
            counts[k] += 1;
            if i < j {
                run.evaluations += 1;
                run.nontrivial(mix(i as u64, 100 + j as u64));
                if run.margin("pair_angle_error_rad", err, 1e-9, || json!({"faces": [i, j]})) {
                    run.violation("C18.frame", json!({"faces": [i, j]}), format!("centres of faces {i} and {j} are {:.12} deg apart; a regular dodecahedron allows 63.4349, 116.5651, 180", d.to_degrees()));
                }
            }
        }
        if counts != [5, 5, 1] {
            run.violation("C18.frame", json!({"face": i}), format!("face {i} has {:?} neighbours at (63.43, 116.57, 180) degrees, expected [5, 5, 1]", counts));
        }
    }
    // orientation: one centre on the north pole, its antipode on the south pole, rings at the documented longitudes
    let north = cs.iter().position(|c| angle(*c, [0.0, 0.0, 1.0]) < 1e-9);
    let south = cs.iter().position(|c| angle(*c, [0.0, 0.0, -1.0]) < 1e-9);
    if north.is_none() || south.is_none() {
        run.violation("C18.orientation", json!({}), format!("no base cell is centred on the north / south pole: {:?}", lonlats));
    }
    let mut upper: Vec<f64> = Vec::new();
    let mut lower: Vec<f64> = Vec::new();
    for (i, c) in cs.iter().enumerate() {
        if Some(i) == north || Some(i) == south {
            continue;
        }
        if c[2] > 0.0 {
            upper.push(lonlats[i].0);
        } else {
            lower.push(lonlats[i].0);
        }
    }
    let ring_err = |lons: &[f64], first: f64| -> f64 {
        lons.iter()
            .map(|l| {
                let k = ((l - first) / 72.0).round();
                reduce_lon_deg(l - first - 72.0 * k).abs()
            })
            .fold(0.0, f64::max)
    };
    if upper.len() != 5 || lower.len() != 5 {
        run.violation("C18.orientation", json!({}), format!("rings have {} and {} centres", upper.len(), lower.len()));
    } else {
        let eu = ring_err(&upper, -93.0);
        let el = ring_err(&lower, -57.0);
        if run.margin("ring_longitude_error_deg", eu.max(el), 1e-9, || json!({"upper": upper, "lower": lower})) {
            run.violation("C18.orientation", json!({"upper": upper, "lower": lower}), format!("ring longitudes are not -93 + 72k (upper, error {eu:e}) / -57 + 72k (lower, error {el:e})"));
        }
    }
    run.sample("frame", || json!({"base_cell_centres_lonlat": lonlats}));
}

pub fn check_relabelling(run: &mut Run) {
    let origins = match guard(get_origins) {
        Ok(o) => o,
        Err(e) => {
            run.violation("C18.relabel", json!({}), format!("get_origins {e}"));
            return;
        }
    };
    if origins.len() != 12 {
        run.violation("C18.relabel", json!({}), format!("{} origins", origins.len()));
        return;
    }
    for (f, origin) in origins.iter().enumerate() {
        let mut segs = [false; 5];
        for q in 0..5usize {
            run.evaluations += 1;
            run.nontrivial(mix(f as u64, 200 + q as u64));
            let case = || json!({"face": f, "quintant": q});
            match guard(|| {
                let (seg, o1) = quintant_to_segment(q, origin);
                let (q2, o2) = segment_to_quintant(seg, origin);
                (seg, o1, q2, o2)
            }) {
                Ok((seg, o1, q2, o2)) => {
                    if seg >= 5 {
                        run.violation("C18.relabel", case(), format!("segment {seg} out of range"));
                        continue;
                    }
                    if segs[seg] {
                        run.violation("C18.relabel", case(), format!("face {f}: two quintants map to segment {seg}"));
                    }
                    segs[seg] = true;
                    if q2 != q {
                        run.violation("C18.relabel", case(), format!("face {f}: quintant {q} -> segment {seg} -> quintant {q2}"));
                    }
                    if o1 != o2 {
                        run.violation("C18.relabel", case(), format!("face {f} quintant {q}: orientation {:?} one way, {:?} the other", o1, o2));
                    }
                    // (which quintant is first on a face is part of the id layout: C05 / C06 judge it, not C18)
                    if origin.first_quintant != FIRST_QUINTANT[f] as usize {
                        run.count("relabel.first_quintant_differs_from_specification");
                    }
                }
                Err(e) => run.violation("C18.relabel", case(), format!("relabelling {e}")),
            }
        }
        // and starting from the segment side
        for seg in 0..5usize {
            if let Ok((q, o1, seg2, o2)) = guard(|| {
                let (q, o1) = segment_to_quintant(seg, origin);
                let (seg2, o2) = quintant_to_segment(q, origin);
                (q, o1, seg2, o2)
            }) {
                if seg2 != seg || o1 != o2 || q >= 5 {
                    run.violation("C18.relabel", json!({"face": f, "segment": seg}), format!("face {f}: segment {seg} -> quintant {q} -> segment {seg2}; orientations {:?} / {:?}", o1, o2));
                }
            }
        }
    }
    run.sample("relabelling", || json!({"face": 3, "quintant_to_segment": (0..5).map(|q| quintant_to_segment(q, &origins[3]).0).collect::<Vec<_>>()}));
}

pub fn check_nearest(run: &mut Run, lon: f64, lat: f64, class: &str) {
    run.evaluations += 1;
    let p = unit_from_lonlat(lon, lat);
    let (f, d0, d1) = nearest_face(p);
    let gap = d1 - d0;
    let case = || json!({"lon": fj(lon), "lat": fj(lat), "class": class});
    if gap < 1e-6 {
        run.count("points_within_1e-6_of_a_seam");
    }
    if gap <= 1e-9 {
        run.count("ties_not_judged");
        return;
    }
    run.nontrivial(mix(lon.to_bits(), lat.to_bits()));
    for res in 0..=1 {
        match lookup(lon, lat, res) {
            Ok(id) => match decode(id) {
                Some(c) if c.res == res => {
                    if c.face != f {
                        run.violation("C18.nearest", case(), format!("lookup at resolution {res} indexes the point on face {} but face {f} is nearer by {:.3e} rad", c.face, gap));
                    }
                }
                _ => run.violation("C18.nearest", case(), format!("lookup at resolution {res} returned {}", hu(id))),
            },
            Err(e) => run.violation("C18.nearest", case(), format!("lookup failed: {e}")),
        }
    }
    match guard(|| find_nearest_origin(to_spherical(p)).id) {
        Ok(id) if id == f => {}
        Ok(id) => run.violation("C18.nearest", case(), format!("find_nearest_origin chose face {id} but face {f} is nearer by {:.3e} rad", gap)),
        Err(e) => run.violation("C18.nearest", case(), format!("find_nearest_origin {e}")),
    }
    // the same direction handed to find_nearest_origin with theta wound by 1e2 .. 9e8 whole turns. Winding rounds theta, so the
    // wound pair (theta, phi) is taken as the input: its direction is computed here with libm's exactly reduced sin / cos, turned
    // back into the geographic frame, and judged against the faces nearest to THAT direction (ties within 1e-9 not judged)
    let h = mix(lon.to_bits() ^ 0x77, lat.to_bits());
    if h % 4 == 0 {
        let s = to_spherical(p);
        let turns = 10f64.powi(2 + ((h >> 4) % 7) as i32) * (1.0 + ((h >> 12) % 9) as f64) * if (h >> 20) & 1 == 0 { 1.0 } else { -1.0 };
        let (theta, phi) = (s.theta().get() + turns * std::f64::consts::TAU, s.phi().get());
        let u = [phi.sin() * theta.cos(), phi.sin() * theta.sin(), phi.cos()];
        let a = crate::mon::c15::LON_OFFSET_DEG.to_radians();
        let pw = [u[0] * a.cos() + u[1] * a.sin(), -u[0] * a.sin() + u[1] * a.cos(), u[2]];
        let (fw, e0, e1) = nearest_face(pw);
        // the library measures distances from theta differences; subtracting a face axis' theta from an angle of this magnitude
        // rounds by up to half an ulp of it (1.1e-16 |theta|), on the unchanged tree as in any f64 implementation: a runner-up
        // that is not further away than twice that is a tie at the precision the input itself allows
        if e1 - e0 > 1e-9 + 4.5e-16 * theta.abs() {
            run.count("wound_theta.judged");
            if e1 - e0 < 1e-6 {
                run.count("wound_theta.judged_within_1e-6_of_a_seam");
            }
            let wcase = || json!({"lon": fj(lon), "lat": fj(lat), "class": class, "theta": fj(theta), "phi": fj(phi), "turns": turns});
            match guard(|| find_nearest_origin(a5::coordinate_systems::Spherical::new(a5::coordinate_systems::Radians::new_unchecked(theta), a5::coordinate_systems::Radians::new_unchecked(phi))).id) {
                Ok(id) if id == fw => {}
                Ok(id) => run.violation("C18.nearest_wound", wcase(), format!("find_nearest_origin(theta = {theta}, phi = {phi}) chose face {id} but face {fw} is nearer to that direction by {:.3e} rad", e1 - e0)),
                Err(e) => run.violation("C18.nearest_wound", wcase(), format!("find_nearest_origin {e}")),
            }
        } else {
            run.count("wound_theta.ties_not_judged");
        }
    }
    if run.wants_sample(class) {
        run.sample(class, || json!({"lon": lon, "lat": lat, "nearest_face": f, "runner_up_further_by_rad": gap}));
    }
}

fn run(ctx: &Ctx) -> Run {
    silence_panics();
    let threads = ctx.threads;
    let mut out = parallel(threads, |w, run| {
        let mut rng = ctx.rng("C18", w);
        let fr = Frame::new();
        if w == 0 {
            check_frame(run);
            check_relabelling(run);
        }
        let n = ctx.n(12_000_000, 400_000_000) / threads as u64;
        for i in 0..n {
            // error paths must leave nothing behind: now and then a few rejected calls precede the judged ones
            if rng.below(4096) == 0 {
                crate::orc::failed_call_history(&mut rng);
            }
            if i % 50_000 == 0 {
                // the exhaustive relabelling check again, on every worker, while the other workers keep the library busy
                check_relabelling(run);
                run.count("relabelling.exhaustive_passes_under_concurrency");
            }
            let class = *rng.pick(&["uniform", "seam", "seam", "dvertex", "edgemid", "fcentre", "polar", "diagonal", "axes"]);
            let (mut lon, lat) = gen::point(&mut rng, &fr, class);
            run.count(&format!("class.{class}"));
            if i % 8 == 3 {
                // the same place written one or more turns away (0..360 convention, accumulated headings)
                lon = gen::wrap(&mut rng, lon);
                run.count("longitudes_written_turns_away");
            }
            check_nearest(run, lon, lat, class);
        }
    });
    if out.counters.get("points_within_1e-6_of_a_seam").copied().unwrap_or(0) == 0 {
        out.inconclusive("no point near a seam was observed".to_string());
    }
    out.note("exhaustive: all 66 pairs of base-cell centres, all 60 face x quintant relabellings (both directions)".to_string());
    out
}

fn replay(check: &str, case: &Value, run: &mut Run) -> Option<()> {
    if !check.starts_with("C18.") {
        return None;
    }
    if let (Some(lon), Some(lat)) = (case.get("lon").and_then(parse_f), case.get("lat").and_then(parse_f)) {
        check_nearest(run, lon, lat, "replay");
        println!("replay: nearest_face = {:?}, lookup r0 = {:?}", nearest_face(unit_from_lonlat(lon, lat)), lookup(lon, lat, 0).map(hu));
    } else {
        check_frame(run);
        check_relabelling(run);
    }
    Some(())
}
