//! C03 — cells of one resolution partition the sphere: no overlaps, no gaps (DESIGN §6 C03)
use crate::gen::{self, Frame};
use crate::geom::*;
use crate::model::*;
use crate::mon::Monitor;
use crate::orc::*;
use crate::report::*;
use crate::rng::{mix, Rng};
use crate::Ctx;
use a5::coordinate_systems::LonLat;
use serde_json::{json, Value};
use std::collections::{BTreeSet, HashMap};

pub const MONITOR: Monitor = Monitor {
    id: "C03",
    rule: "one evaluation = one (query point, resolution) judged against a candidate set of cells: the number of candidates that contain \
           the point strictly (signed planar distance < -band) must be <= 1 and some candidate must cover it (distance <= band); the \
           library's own containment predicate must agree in sign outside the band. Candidates: every cell within 2.5 cell sizes through \
           a spatial index over all reported centres (exhaustive levels), or the two-ring neighbourhood found by lookups. A second, \
           public-API-only variant counts reported rings containing the point. non-trivial = distinct (point, resolution) with >= 2 \
           candidates evaluated",
    run,
    replay,
};

/// all cells of one resolution with a spatial index over their reported centres
pub struct Level {
    pub res: i32,
    pub cells: Vec<MCell>,
    pub centres: Vec<V3>,
    grid: HashMap<(i32, i32, i32), Vec<u32>>,
    h: f64,
}

impl Level {
    pub fn build(res: i32) -> Result<Level, String> {
        let cells = children_at(WORLD, res);
        let mut centres = Vec::with_capacity(cells.len());
        for c in &cells {
            centres.push(centre_unit(encode(*c))?);
        }
        let h = (2.5 * cell_size(res)).min(0.7);
        let mut grid: HashMap<(i32, i32, i32), Vec<u32>> = HashMap::new();
        for (i, v) in centres.iter().enumerate() {
            grid.entry(Self::key(*v, h)).or_default().push(i as u32);
        }
        Ok(Level { res, cells, centres, grid, h })
    }
    fn key(v: V3, h: f64) -> (i32, i32, i32) {
        ((v[0] / h).floor() as i32, (v[1] / h).floor() as i32, (v[2] / h).floor() as i32)
    }
    /// indices of all cells whose centre is within `radius` (chord <= radius) of p; radius <= h
    pub fn near(&self, p: V3, radius: f64) -> Vec<usize> {
        let mut out = Vec::new();
        if self.cells.len() <= 60 {
            return (0..self.cells.len()).collect();
        }
        let k = Self::key(p, self.h);
        for dx in -1..=1 {
            for dy in -1..=1 {
                for dz in -1..=1 {
                    if let Some(v) = self.grid.get(&(k.0 + dx, k.1 + dy, k.2 + dz)) {
                        for &i in v {
                            if norm(sub(self.centres[i as usize], p)) <= radius {
                                out.push(i as usize);
                            }
                        }
                    }
                }
            }
        }
        out
    }
}

fn contains_predicate(c: MCell, lon: f64, lat: f64) -> Result<f64, String> {
    flatten(guard(|| a5::core::cell::a5cell_contains_point(&to_a5(c), LonLat::new(lon, lat))))
}

/// the partition oracle for one point against a candidate set
pub fn check_point(run: &mut Run, lon: f64, lat: f64, res: i32, cands: &[MCell], class: &str, how: &str) {
    run.evaluations += 1;
    let pu = unit_from_lonlat(lon, lat);
    let (nf, d0, _) = nearest_face(pu);
    let l = cell_size(res);
    let reach = if res <= 1 { 1e-9 } else { 3.0 * l };
    let band = lookup_band(lon);
    let centres = face_centres();
    let mut inside: Vec<(u64, f64)> = Vec::new();
    let mut best = f64::INFINITY;
    let mut evaluated = 0;
    for k in cands {
        if k.face != nf && angle(pu, centres[k.face as usize]) - d0 > reach {
            run.count("candidates.skipped_unreachable_face");
            continue;
        }
        let d = match o1(*k, lon, lat) {
            Ok(d) => d,
            Err(e) => {
                run.violation("C03.ok", json!({"lon": fj(lon), "lat": fj(lat), "res": res, "cell": hu(encode(*k))}), format!("placing candidate failed: {e}"));
                continue;
            }
        };
        evaluated += 1;
        if d < best {
            best = d;
        }
        if d < -band {
            inside.push((encode(*k), d));
        }
        // the library's own predicate must tell the same story outside the band
        if d.abs() > band.max(1e-9 * l) {
            match contains_predicate(*k, lon, lat) {
                Ok(v) => {
                    if (v > 0.0) != (d < 0.0) {
                        run.violation(
                            "C03.predicate",
                            json!({"lon": fj(lon), "lat": fj(lat), "res": res, "cell": hu(encode(*k)), "class": class}),
                            format!("a5cell_contains_point says {} for cell {} but the signed distance is {:.3e} rad ({:.3e} cell sizes)", v, hu(encode(*k)), d, d / l),
                        );
                    }
                }
                Err(e) => run.violation("C03.ok", json!({"lon": fj(lon), "lat": fj(lat), "res": res, "cell": hu(encode(*k))}), format!("a5cell_contains_point failed: {e}")),
            }
        }
    }
    run.countn("candidates.evaluated", evaluated);
    let case = || json!({"lon": fj(lon), "lat": fj(lat), "res": res, "class": class, "candidates_from": how, "cells": inside.iter().map(|(i, _)| hu(*i)).collect::<Vec<_>>()});
    if inside.len() >= 2 {
        run.violation(
            "C03.overlap",
            case(),
            format!("point ({lon}, {lat}) lies strictly inside {} cells of resolution {res}: {}", inside.len(), inside.iter().map(|(i, d)| format!("{} by {:.3e}", hu(*i), -d)).collect::<Vec<_>>().join(", ")),
        );
    }
    if evaluated > 0 {
        if run.margin("uncovered_distance_rad", best - (band - 1e-12), 1e-12, case) {
            run.violation("C03.gap", case(), format!("point ({lon}, {lat}) is covered by none of the {evaluated} candidate cells of resolution {res}: nearest is {:.3e} rad ({:.3e} cell sizes) away", best, best / l));
        }
        if inside.is_empty() && best <= band {
            run.count("points_on_an_edge_within_band");
        }
    } else {
        run.count("points_without_candidates");
    }
    if evaluated >= 2 {
        run.nontrivial(mix(mix(lon.to_bits(), lat.to_bits()), res as u64));
    }
    if run.wants_sample(class) {
        run.sample(class, || json!({"lon": lon, "lat": lat, "res": res, "candidates": evaluated, "strictly_inside": inside.iter().map(|(i, _)| hu(*i)).collect::<Vec<_>>(), "min_signed_distance": best}));
    }
}

/// public-API-only variant: count the reported rings (16 segments per edge) that contain the point
pub fn check_point_rings(run: &mut Run, lon: f64, lat: f64, res: i32, cands: &[(u64, &Vec<V3>)], class: &str) {
    run.evaluations += 1;
    let pu = unit_from_lonlat(lon, lat);
    let band2 = o2_band(res, 16);
    let mut inside: Vec<u64> = Vec::new();
    let mut near_any = false;
    for (id, ring) in cands {
        let (ins, dist) = o2(ring, pu);
        if dist <= band2 {
            near_any = true;
        } else if ins {
            inside.push(*id);
        }
    }
    run.countn("ring_candidates.evaluated", cands.len() as u64);
    let case = || json!({"lon": fj(lon), "lat": fj(lat), "res": res, "class": class, "cells": inside.iter().map(|i| hu(*i)).collect::<Vec<_>>()});
    if inside.len() >= 2 {
        run.violation("C03.ring_overlap", case(), format!("point ({lon}, {lat}) is inside {} reported boundaries of resolution {res} by more than the ring band", inside.len()));
    } else if inside.is_empty() && !near_any {
        run.violation("C03.ring_gap", case(), format!("point ({lon}, {lat}) is inside no reported boundary of resolution {res} and not within the ring band of any"));
    } else if inside.len() == 1 {
        run.count("ring_variant.exactly_one");
    } else {
        run.count("ring_variant.undecided_in_band");
    }
}

/// The two descriptions of a cell the API offers - the containment predicate (planar oracle O1 as its exact form) and the
/// reported boundary - must not hand the same point to two different cells: if the point is strictly inside cell X by O1 and
/// strictly inside the reported ring of cell Y, both by more than the ring band, then X = Y.
pub fn check_two_views(run: &mut Run, lon: f64, lat: f64, res: i32, cands: &[MCell], rings: &[(u64, &Vec<V3>)], class: &str) {
    let pu = unit_from_lonlat(lon, lat);
    let band2 = o2_band(res, 16).max(lookup_band(lon));
    let planar: Vec<u64> = cands.iter().filter(|k| o1(**k, lon, lat).map(|d| d < -band2).unwrap_or(false)).map(|k| encode(*k)).collect();
    let ringed: Vec<u64> = rings.iter().filter(|(_, r)| { let (ins, dist) = o2(r, pu); ins && dist > band2 }).map(|(i, _)| *i).collect();
    run.evaluations += 1;
    if planar.len() == 1 && ringed.len() == 1 {
        if planar[0] != ringed[0] {
            run.violation(
                "C03.two_views",
                json!({"lon": fj(lon), "lat": fj(lat), "res": res, "class": class, "cells": [hu(planar[0]), hu(ringed[0])]}),
                format!("point ({lon}, {lat}) is strictly inside {} by the containment predicate and strictly inside the reported boundary of {} (both by more than {:.2e} rad): two cells of resolution {res} claim it", hu(planar[0]), hu(ringed[0]), band2),
            );
        } else {
            run.count("two_views.agree");
        }
    } else {
        run.count("two_views.undecided_in_band");
    }
}

/// two-ring neighbourhood of p by lookups at offsets, plus all siblings of what was found
pub fn neighbourhood(rng: &mut Rng, lon: f64, lat: f64, res: i32) -> Vec<MCell> {
    let pu = unit_from_lonlat(lon, lat);
    let (e1, e2) = tangent_basis(pu);
    let l = cell_size(res);
    let mut ids: BTreeSet<u64> = BTreeSet::new();
    let phase = rng.range(0.0, 1.0);
    let mut pts = vec![(lon, lat)];
    for (ring_r, n) in [(0.7, 12), (1.4, 12)] {
        for k in 0..n {
            let t = (k as f64 + phase) * std::f64::consts::TAU / n as f64;
            let q = normalize(add(pu, add(scale(e1, ring_r * l * t.cos()), scale(e2, ring_r * l * t.sin()))));
            pts.push(lonlat_from_unit(q));
        }
    }
    for (lo, la) in pts {
        if let Ok(id) = lookup(lo, la, res) {
            ids.insert(id);
        }
    }
    let mut out: BTreeSet<MCell> = BTreeSet::new();
    for id in ids {
        if let Some(c) = decode(id) {
            if c.res != res {
                continue;
            }
            out.insert(c);
            if res >= 1 {
                if let Some(p) = parent_at(c, res - 1) {
                    for s in children_at(p, res) {
                        out.insert(s);
                    }
                }
            }
        }
    }
    out.into_iter().collect()
}

fn run(ctx: &Ctx) -> Run {
    silence_panics();
    let threads = ctx.threads;
    let exhaustive_to: i32 = if ctx.quick() { 4 } else { 5 };
    let ring_to: i32 = if ctx.quick() { 2 } else { 3 };
    // levels are built once and shared
    let mut levels: Vec<Level> = Vec::new();
    let mut pre = Run::new();
    for res in 0..=exhaustive_to {
        match Level::build(res) {
            Ok(l) => levels.push(l),
            Err(e) => pre.violation("C03.ok", json!({"res": res}), format!("cell_to_lonlat failed while indexing resolution {res}: {e}")),
        }
    }
    let mut rings: Vec<Vec<Vec<V3>>> = Vec::new();
    for res in 0..=ring_to.min(levels.len() as i32 - 1) {
        let mut v = Vec::new();
        for c in &levels[res as usize].cells {
            match ring_units(encode(*c), 16) {
                Ok(r) => v.push(r),
                Err(e) => {
                    pre.violation("C03.ok", json!({"res": res}), format!("cell_to_boundary failed while indexing resolution {res}: {e}"));
                    v.push(Vec::new());
                }
            }
        }
        rings.push(v);
    }
    let mut out = parallel(threads, |w, run| {
        let mut rng = ctx.rng("C03", w);
        let fr = Frame::new();
        // (a) exhaustive levels: every cell's ring points nudged inwards / outwards, and random points of every class
        for lv in &levels {
            let l = cell_size(lv.res);
            let radius = (2.5 * l).min(0.7);
            for (k, c) in lv.cells.iter().enumerate() {
                if k % threads != w {
                    continue;
                }
                run.count(&format!("exhaustive.res{:02}.cells_with_nudged_ring", lv.res));
                let id = encode(*c);
                let Ok(ring) = ring_units(id, 2) else { continue };
                let cu = lv.centres[k];
                for v in ring {
                    for sgn in [1.0, -1.0] {
                        let dir = normalize(sub(cu, v));
                        let q = normalize(add(v, scale(dir, sgn * 1e-6 * l)));
                        let (lo, la) = lonlat_from_unit(q);
                        let cands: Vec<MCell> = if lv.res <= 1 { lv.cells.clone() } else { lv.near(q, radius).into_iter().map(|i| lv.cells[i]).collect() };
                        check_point(run, lo, la, lv.res, &cands, if sgn > 0.0 { "ring_point_nudged_inwards" } else { "ring_point_nudged_outwards" }, "index");
                    }
                }
            }
            let n = ctx.n(20_000, 200_000) / threads as u64 + 1;
            for _ in 0..n {
                let class = *rng.pick(&gen::POINT_CLASSES);
                let (lo, la) = gen::point(&mut rng, &fr, class);
                let q = unit_from_lonlat(lo, la);
                let idx = if lv.res <= 1 { (0..lv.cells.len()).collect() } else { lv.near(q, radius) };
                let cands: Vec<MCell> = idx.iter().map(|i| lv.cells[*i]).collect();
                check_point(run, lo, la, lv.res, &cands, class, "index");
                run.count(&format!("exhaustive.res{:02}.random_points", lv.res));
                if (lv.res as usize) < rings.len() {
                    let rc: Vec<(u64, &Vec<V3>)> = idx.iter().map(|i| (encode(lv.cells[*i]), &rings[lv.res as usize][*i])).filter(|(_, r)| !r.is_empty()).collect();
                    check_point_rings(run, lo, la, lv.res, &rc, class);
                }
            }
        }
        // (b) every resolution: neighbourhood by lookups
        let n = ctx.n(300_000, 10_000_000) / threads as u64;
        for i in 0..n {
            let res = gen::random_res(&mut rng).max(2);
            let class: &str;
            let (lo, la) = if i % 3 == 0 {
                // a point hugging an edge or vertex of an existing cell
                let base_class = *rng.pick(&gen::POINT_CLASSES);
                let (blo, bla) = gen::point(&mut rng, &fr, base_class);
                class = "celledge";
                match lookup(blo, bla, res).ok().and_then(|id| ring_units(id, 1 + rng.below(4) as i32).ok().map(|r| (id, r))) {
                    Some((id, ring)) => {
                        let v = ring[rng.usize(ring.len())];
                        let cu = centre_unit(id).unwrap_or(v);
                        let eps = rng.log10(0.0, 16.0) * rng.sign();
                        lonlat_from_unit(normalize(add(v, scale(sub(cu, v), eps))))
                    }
                    None => continue,
                }
            } else {
                class = *rng.pick(&gen::POINT_CLASSES);
                gen::point(&mut rng, &fr, class)
            };
            // a point placed on a located discontinuity (12d) comes with a resolution whose cells are comparable to the jump,
            // and is always judged by the ring variant too (a jump of the inverse projection moves rings, not the predicate)
            let hinted = crate::loci::take_hint_res(&mut rng);
            let res = hinted.map(|r| r.max(2)).unwrap_or(res);
            let cands = neighbourhood(&mut rng, lo, la, res);
            if i % 2 == 1 && !cands.is_empty() {
                // history: a relative of one candidate (same curve position on another face, ...) is placed immediately before
                let k = cands[rng.usize(cands.len())];
                prime_history(&mut rng, k);
                run.count("neighbourhood.primed_with_a_relative");
            }
            check_point(run, lo, la, res, &cands, class, "lookups");
            if (i % 8 == 5 || hinted.is_some()) && cands.len() <= 64 {
                // the public-API-only variant at every resolution: reported rings (16 segments per edge) of the same
                // neighbourhood; exactly one must contain the point (or the point is within the ring band of one)
                let rings: Vec<(u64, Vec<V3>)> = cands.iter().filter_map(|k| ring_units(encode(*k), 16).ok().map(|r| (encode(*k), r))).collect();
                let refs: Vec<(u64, &Vec<V3>)> = rings.iter().map(|(i, r)| (*i, r)).collect();
                check_point_rings(run, lo, la, res, &refs, class);
                check_two_views(run, lo, la, res, &cands, &refs, class);
                run.count("neighbourhood.ring_variant");
            }
            run.count(&format!("neighbourhood.res{res:02}"));
            run.count(&format!("class.{class}"));
        }
    });
    out.merge(pre);
    for res in 2..=29 {
        if out.counters.get(&format!("neighbourhood.res{res:02}")).copied().unwrap_or(0) == 0 {
            out.inconclusive(format!("resolution {res} was not exercised"));
        }
    }
    out.note(format!("exhaustive over cells for resolutions 0..={exhaustive_to} (every cell is a candidate through the index); ring variant for 0..={ring_to}"));
    out
}

fn replay(check: &str, case: &Value, run: &mut Run) -> Option<()> {
    if !check.starts_with("C03.") {
        return None;
    }
    let lon = parse_f(case.get("lon")?)?;
    let lat = parse_f(case.get("lat")?)?;
    let res = case["res"].as_i64()? as i32;
    let mut rng = Rng::stream(1, "replay", 0);
    let mut cands: BTreeSet<MCell> = neighbourhood(&mut rng, lon, lat, res).into_iter().collect();
    if let Some(cells) = case.get("cells").and_then(parse_ids) {
        cands.extend(cells.iter().filter_map(|i| decode(*i)));
    }
    if let Some(c) = case.get("cell").and_then(parse_hex_u64).and_then(decode) {
        cands.insert(c);
    }
    if res <= 5 {
        if let Ok(lv) = Level::build(res) {
            let q = unit_from_lonlat(lon, lat);
            cands.extend(lv.near(q, (2.5 * cell_size(res)).min(0.7)).into_iter().map(|i| lv.cells[i]));
        }
    }
    let cands: Vec<MCell> = cands.into_iter().collect();
    check_point(run, lon, lat, res, &cands, "replay", "replay");
    for c in &cands {
        println!("replay: candidate {} signed distance {:?}", hu(encode(*c)), o1(*c, lon, lat));
    }
    Some(())
}
