//! C13 — every call is a pure function of its arguments: no history or thread effects (DESIGN §6 C13).
//! Native part: cold table, concurrent random histories compared bit for bit, thread churn, first-touch processes.
//! The sanitizer part (Miri, ThreadSanitizer) is orchestrated by /verif/check.
use crate::calls::{Call, Outcome};
use crate::gen::{self, Frame};
use crate::model::*;
use crate::mon::c15::{D_EDGE, R_VERTEX};
use crate::mon::Monitor;
use crate::orc::*;
use crate::report::*;
use crate::rng::{mix, Rng};
use crate::Ctx;
use serde_json::{json, Value};
use std::collections::HashSet;
use std::sync::{Arc, Barrier, Mutex};
use std::time::Instant;

pub const MONITOR: Monitor = Monitor {
    id: "C13",
    rule: "one evaluation = one call of a concurrent random history (N threads released by a barrier on cold caches, thread churn, \
           first-touch processes) whose result bits are compared with the cold table: the same call executed alone as the first call \
           of a freshly spawned thread; the table itself is computed in two processes and must agree. non-trivial = distinct \
           (call, set of projection-memo slots already filled when it ran), i.e. distinct call x cache-state combinations",
    run,
    replay,
};

pub const N_SLOTS: usize = 270;

/// the calling thread's memo slots, through hook H2 (empty view when the harness is built without hooks)
pub fn slots() -> [bool; N_SLOTS] {
    let mut v = [false; N_SLOTS];
    #[cfg(feature = "hooks")]
    {
        let (f, s) = a5::projections::dodecahedron::DodecahedronProjection::get_thread_local().verif_filled_slots();
        v[..30].copy_from_slice(&f);
        v[30..].copy_from_slice(&s);
    }
    v
}

/// planar point in sector s (0..9) of a face, inside the face or beyond its edge
fn sector_point(rng: &mut Rng, s: usize, beyond: bool) -> (f64, f64) {
    let quint = ((s + 1) / 2) % 5;
    let amid = (72.0 * quint as f64).to_radians();
    // offset angle from the edge-midpoint direction: even sectors lie on the positive side
    let half = if s % 2 == 0 { 1.0 } else { -1.0 };
    let xp = if beyond { D_EDGE * rng.range(1.05, 1.5) } else { D_EDGE * rng.range(0.2, 0.9) };
    let ymax = if beyond { 0.449 * (2.0 * D_EDGE - xp) / D_EDGE } else { xp * 36f64.to_radians().tan() };
    let yp = half * ymax * rng.range(0.2, 0.8);
    let _ = R_VERTEX;
    (xp * amid.cos() - yp * amid.sin(), xp * amid.sin() + yp * amid.cos())
}

/// the pool of call descriptors: every face x sector x {inside, beyond} through inverse and forward (addresses all 270 slots)
/// plus the ten public functions over few keys
pub fn pool(seed: u64) -> Vec<Call> {
    let mut rng = Rng::stream(seed, "C13.pool", 0);
    let fr = Frame::new();
    let mut v: Vec<Call> = Vec::new();
    for face in 0..12u8 {
        for s in 0..10usize {
            for beyond in [false, true] {
                let (x, y) = sector_point(&mut rng, s, beyond);
                v.push(Call::Inverse { x, y, face });
                if let Outcome::Ok(sp) = (Call::Inverse { x, y, face }).exec() {
                    v.push(Call::Forward { theta: f64::from_bits(sp[0]), phi: f64::from_bits(sp[1]), face });
                }
            }
        }
    }
    // projection calls that are rejected (a face number beyond the twelve faces): their outcome must be the same in every
    // history, and nothing they did on the way to the rejection may be visible to the calls after them
    for face in [12u8, 13, 17, 23, 24, 59, 255] {
        for (s, beyond) in [(0usize, false), (5, true), (7, false)] {
            let (x, y) = sector_point(&mut rng, s, beyond);
            v.push(Call::Inverse { x, y, face });
            v.push(Call::Forward { theta: rng.range(0.0, 6.28), phi: rng.range(0.1, 3.0), face });
        }
    }
    let mut cells: Vec<u64> = vec![0];
    for i in 0..240 {
        let class = gen::POINT_CLASSES[i % gen::POINT_CLASSES.len()];
        let (lon, lat) = gen::point(&mut rng, &fr, class);
        let res = [0, 1, 2, 3, 5, 9, 14, 22, 29, 1, 0, 26][(i / gen::POINT_CLASSES.len()) % 12];
        v.push(Call::Lookup { lon, lat, res });
        if let Ok(id) = lookup(lon, lat, res) {
            cells.push(id);
        }
    }
    // coordinate twins, adjacent in the pool: (a, b) and (b, a), equal and opposite coordinates, doubled pairs
    for k in 0..40 {
        let a = rng.range(-90.0, 90.0);
        let b = rng.range(-90.0, 90.0);
        let res = [0, 1, 4, 9, 17][k % 5];
        for (lon, lat) in [(a, b), (b, a), (a, a), (-a, a), (b, b), (2.0 * a, a), (a / 2.0, b / 2.0)] {
            v.push(Call::Lookup { lon, lat, res });
        }
    }
    // ladders: points that are a cell vertex at EVERY resolution (the poles = two face centres, other face centres,
    // dodecahedron vertices), looked up at all resolutions one after the other
    let mut ladder_points: Vec<(f64, f64)> = vec![(12.3, 90.0), (-119.877, -90.0)];
    for k in [1usize, 4, 8] {
        ladder_points.push(crate::geom::lonlat_from_unit(fr.centres[k]));
    }
    for k in [0usize, 7, 13] {
        ladder_points.push(crate::geom::lonlat_from_unit(fr.vertices[k]));
    }
    for (lon, lat) in ladder_points {
        for res in 2..=29 {
            v.push(Call::Lookup { lon, lat, res });
        }
    }
    // vertex clusters: the exact corners of a cell looked up at its own and the neighbouring resolutions, and points a
    // few centimetres away - the lookups that reach the search's rarely taken branches (probe hits, nearest-cell fallback)
    for k in 0..48usize {
        let id = cells[1 + (k * 7) % (cells.len() - 1)];
        let Some(c) = decode(id) else { continue };
        if c.res < 2 {
            continue;
        }
        let Ok(ring) = guard(|| a5::cell_to_boundary(id, Some(a5::core::cell::CellToBoundaryOptions { closed_ring: false, segments: Some(1) }))) else { continue };
        let Ok(ring) = ring else { continue };
        for (j, p) in ring.iter().enumerate() {
            for dr in [-1, 0, 1] {
                let r = (c.res + dr).clamp(2, MAX_RES);
                v.push(Call::Lookup { lon: p.longitude(), lat: p.latitude(), res: r });
                if j % 2 == 0 {
                    v.push(Call::Lookup { lon: p.longitude() + 1e-7, lat: p.latitude(), res: r });
                }
            }
        }
    }
    for (i, id) in cells.iter().enumerate().take(40) {
        v.push(Call::CellToLonLat(*id));
        v.push(Call::Boundary { id: *id, closed: i % 2 == 0, segments: if i % 3 == 0 { None } else { Some(1 + (i % 5) as i32) } });
        v.push(Call::Parent { id: *id, res: None });
        v.push(Call::Children { id: *id, res: None });
        v.push(Call::GetResolution(*id));
    }
    // the same cell with different options: a result must depend on ALL of its arguments and on nothing else
    for (i, id) in cells.iter().enumerate().skip(1).take(12) {
        for segments in [None, Some(1), Some(3), Some(16)] {
            for closed in [true, false] {
                if i % 2 == 0 || segments.is_some() {
                    v.push(Call::Boundary { id: *id, closed, segments });
                }
            }
        }
        for r in [0, 1, 2] {
            if let Some(c) = decode(*id) {
                v.push(Call::Parent { id: *id, res: Some((c.res - r).max(-1)) });
                if c.res + r <= MAX_RES {
                    v.push(Call::Children { id: *id, res: Some(c.res + r) });
                }
            }
        }
    }
    // twin families: the same resolution and curve position on all 60 face x quintant combinations (hence on all six curve
    // orientations), adjacent in the pool so that a history window draws them back to back
    for (res, s) in [(6, 0x2du64), (9, 0x2d1b), (8, 0x2727), (12, 0x155_5555), (20, 0x3_0000_0003)] {
        for k in 0..60u8 {
            let id = encode(MCell::new(res, k / 5, k % 5, s & ((1u64 << (2 * (res - 1))) - 1)));
            v.push(Call::CellToLonLat(id));
            if k % 2 == 0 {
                v.push(Call::Boundary { id, closed: false, segments: Some(1) });
            }
        }
    }
    // chain families: the same face, quintant and position NUMBER at a ladder of resolutions (s = 0 is the first-child chain)
    for (k, s) in [(7u8, 0u64), (23, 7), (41, 0x2d), (58, 1)] {
        for res in 3..=16 {
            if s >= 1u64 << (2 * (res - 1)) {
                continue;
            }
            let id = encode(MCell::new(res, k / 5, k % 5, s));
            v.push(Call::CellToLonLat(id));
            v.push(Call::Boundary { id, closed: true, segments: None });
        }
    }
    for r in [-1, 0, 1, 7, 29] {
        v.push(Call::NumCells(r));
        v.push(Call::CellArea(r));
    }
    for flavour in ["antichain", "lowres", "complete", "overlap"] {
        let set: Vec<u64> = gen::cell_set(&mut rng, flavour).iter().take(200).map(|c| encode(*c)).collect();
        v.push(Call::Compact(set.clone()));
        let r = set.iter().filter_map(|i| decode(*i)).map(|c| c.res).max().unwrap_or(0);
        if set.iter().filter_map(|i| decode(*i)).map(|c| fanout(c.res, r)).sum::<u128>() < 5000 {
            v.push(Call::Uncompact(set, r));
        }
    }
    v.push(Call::Res0);
    // the generic projection with a foreign triangle (public 'for testing'): it must not leave anything behind either
    for (x, y) in [(0.3, 0.3), (0.1, 0.6), (0.25, 0.5), (0.5, 0.2)] {
        v.push(Call::GenericInverse { x, y });
    }
    for kind in 0..3u8 {
        v.push(Call::ContainsMalformed { kind });
    }
    v.push(Call::U64ToHex(0x1234_5678_9abc_def0));
    v.push(Call::HexToU64("ff00".to_string()));
    v
}

#[derive(Clone)]
pub struct Cold {
    pub digest: u64,
    pub short: String,
    pub kind: &'static str,
    /// slots this call fills on an empty memo = the slots it addresses
    pub addresses: Vec<usize>,
    /// false when the fresh thread already saw filled slots (the memo is then not per-thread)
    pub memo_was_empty: bool,
}

/// executes d alone as the first call of a freshly spawned thread
pub fn cold_exec(d: &Call) -> Result<Cold, String> {
    let d = d.clone();
    std::thread::spawn(move || {
        silence_panics();
        let before = slots();
        let out = d.exec();
        let after = slots();
        Ok(Cold {
            digest: out.digest(),
            short: out.short(),
            kind: out.kind(),
            addresses: (0..N_SLOTS).filter(|i| after[*i] && !before[*i]).collect(),
            memo_was_empty: !before.iter().any(|b| *b),
        })
    })
    .join()
    .map_err(|_| "cold thread panicked".to_string())?
}

pub fn cold_table(pool: &[Call]) -> Result<Vec<Cold>, String> {
    pool.iter().map(cold_exec).collect()
}

/// `a5mon c13-table <seed>`: prints one digest per pool entry (second, independent process)
pub fn print_table(seed: u64) {
    silence_panics();
    let p = pool(seed);
    match cold_table(&p) {
        Ok(t) => {
            for c in t {
                println!("{:016x}", c.digest);
            }
        }
        Err(e) => {
            println!("ERROR {e}");
        }
    }
}

/// `a5mon c13-first-touch <seed> <round>`: the very first library calls of this process are issued simultaneously by 16 threads
pub fn first_touch(seed: u64, round: u64) {
    // NOTE: the pool is built from generators only where possible; building it calls the library (inverse, lookups), so this
    // process reads the pool indices and argument texts from stdin instead: nothing touches the library before the barrier.
    let mut input = String::new();
    use std::io::Read;
    std::io::stdin().read_to_string(&mut input).unwrap();
    let calls: Vec<(usize, Call)> = input.lines().filter_map(|l| l.split_once(' ')).filter_map(|(i, t)| Some((i.parse().ok()?, Call::from_text(t)?))).collect();
    let n = 16;
    let barrier = Arc::new(Barrier::new(n));
    let out = Arc::new(Mutex::new(Vec::new()));
    let calls = Arc::new(calls);
    let hs: Vec<_> = (0..n)
        .map(|t| {
            let (barrier, out, calls) = (barrier.clone(), out.clone(), calls.clone());
            std::thread::spawn(move || {
                std::panic::set_hook(Box::new(|_| {}));
                let mut rng = Rng::stream(seed, "C13.first", round * 64 + t as u64);
                let mut mine: Vec<usize> = (0..6).map(|_| rng.usize(calls.len())).collect();
                if round % 2 == 1 && t < 2 {
                    // the process's very first projection is the generic one with a foreign triangle
                    if let Some(k) = calls.iter().position(|c| matches!(c.1, Call::GenericInverse { .. })) {
                        mine[0] = k;
                    }
                }
                barrier.wait();
                if round % 2 == 1 && t >= 2 {
                    std::thread::sleep(std::time::Duration::from_millis(2));
                }
                let mut res = Vec::new();
                for k in mine {
                    let o = calls[k].1.exec();
                    res.push((calls[k].0, o.digest()));
                }
                out.lock().unwrap().extend(res);
            })
        })
        .collect();
    for h in hs {
        let _ = h.join();
    }
    for (i, d) in out.lock().unwrap().iter() {
        println!("{i} {d:016x}");
    }
}

struct Event {
    d: usize,
    digest: u64,
    short: String,
    filled_before: u64, // hash of the slot state before the call
    newly: Vec<usize>,
    warm: Vec<usize>,
}

/// one thread's history: returns its events and (start, end) stamps
fn run_history(pool: &[Call], table: &[Cold], hist: &[usize]) -> (Vec<Event>, Instant, Instant) {
    let start = Instant::now();
    let mut ev = Vec::with_capacity(hist.len());
    for &d in hist {
        let before = slots();
        let out = pool[d].exec();
        let after = slots();
        let newly: Vec<usize> = (0..N_SLOTS).filter(|i| after[*i] && !before[*i]).collect();
        let warm: Vec<usize> = table[d].addresses.iter().copied().filter(|i| before[*i]).collect();
        let filled_before = before.iter().enumerate().fold(0u64, |h, (i, b)| if *b { mix(h, i as u64) } else { h });
        ev.push(Event { d, digest: out.digest(), short: out.short(), filled_before, newly, warm });
    }
    (ev, start, Instant::now())
}

struct SlotCover {
    cold: [bool; N_SLOTS],
    warm: [bool; N_SLOTS],
}

fn judge(run: &mut Run, pool: &[Call], table: &[Cold], events: &[Event], hist: &[usize], thread: usize, n_threads: usize, cover: &mut SlotCover, orders: &mut HashSet<u64>, label: &str) {
    let mut order = 0u64;
    for (seq, e) in events.iter().enumerate() {
        run.evaluations += 1;
        if e.digest != table[e.d].digest {
            let prefix: Vec<String> = hist[seq.saturating_sub(12)..seq].iter().map(|k| pool[*k].to_text()).collect();
            run.violation(
                "C13.history",
                json!({"call": pool[e.d].to_text(), "preceding_calls_same_thread": prefix, "thread": thread, "threads": n_threads, "seq": seq, "workload": label}),
                format!(
                    "`{}` returned [{}] as call #{seq} of thread {thread}/{n_threads} ({label}) but [{}] when executed first in a fresh thread",
                    pool[e.d].to_text(),
                    e.short,
                    table[e.d].short
                ),
            );
        }
        for s in &e.newly {
            cover.cold[*s] = true;
            order = mix(order, *s as u64);
        }
        for s in &e.warm {
            cover.warm[*s] = true;
        }
        run.nontrivial(mix(e.d as u64, e.filled_before));
    }
    orders.insert(order);
}

fn run(ctx: &Ctx) -> Run {
    silence_panics();
    let mut run = Run::new();
    let pool = pool(ctx.seed);
    // (1) cold table, twice in this process and once in another process
    let table = match cold_table(&pool) {
        Ok(t) => t,
        Err(e) => {
            run.inconclusive(format!("cold table could not be built: {e}"));
            return run;
        }
    };
    match cold_table(&pool) {
        Ok(t2) => {
            for (i, (a, b)) in table.iter().zip(t2.iter()).enumerate() {
                run.evaluations += 1;
                if a.digest != b.digest {
                    run.violation("C13.cold", json!({"call": pool[i].to_text()}), format!("`{}` gives [{}] and [{}] in two fresh threads", pool[i].to_text(), a.short, b.short));
                }
            }
        }
        Err(e) => run.inconclusive(format!("second cold table could not be built: {e}")),
    }
    let exe = std::env::current_exe().expect("current_exe");
    match std::process::Command::new(&exe).arg("c13-table").arg(ctx.seed.to_string()).output() {
        Ok(o) => {
            let text = String::from_utf8_lossy(&o.stdout);
            let lines: Vec<&str> = text.lines().collect();
            if lines.len() != table.len() || lines.iter().any(|l| l.starts_with("ERROR")) {
                run.inconclusive(format!("the second process produced {} table lines instead of {}", lines.len(), table.len()));
            } else {
                for (i, l) in lines.iter().enumerate() {
                    run.evaluations += 1;
                    if u64::from_str_radix(l, 16).ok() != Some(table[i].digest) {
                        run.violation("C13.process", json!({"call": pool[i].to_text()}), format!("`{}` gives [{}] in this process and digest {l} in another process", pool[i].to_text(), table[i].short));
                    }
                }
                run.count("cold_table.agrees_with_second_process");
            }
        }
        Err(e) => run.inconclusive(format!("could not start the second process: {e}")),
    }
    if table.iter().any(|c| !c.memo_was_empty) {
        run.note("a freshly spawned thread saw filled memo slots: the projection memo is shared between threads, so 'cold' only holds for the first call of the process".to_string());
        run.count("cold_table.fresh_thread_with_filled_memo");
    }
    let addressed: HashSet<usize> = table.iter().flat_map(|c| c.addresses.iter().copied()).collect();
    run.countn("pool.descriptors", pool.len() as u64);
    run.countn("pool.slots_addressed", addressed.len() as u64);
    for (k, c) in table.iter().enumerate() {
        // a hand-built malformed cell structure is in the pool as a call that fails on purpose (its outcome, panic included,
        // must be the same in every history); every other descriptor has valid arguments
        if c.kind == "panic" && !matches!(pool[k], Call::ContainsMalformed { .. }) {
            run.violation("C13.cold", json!({"call": pool[k].to_text()}), format!("`{}` panics even when executed alone: {}", pool[k].to_text(), c.short));
        }
    }

    // (2) concurrent histories
    let mut cover = SlotCover { cold: [false; N_SLOTS], warm: [false; N_SLOTS] };
    let mut orders: HashSet<u64> = HashSet::new();
    let rounds = ctx.n(60, 2000);
    let pool_arc = Arc::new(pool.clone());
    let table_arc = Arc::new(table.clone());
    let mut overlapping_rounds = 0u64;
    let mut fully_overlapping_rounds = 0u64;
    let mut max_concurrency = 0u64;
    for round in 0..rounds {
        let n_threads = [2usize, 4, 16, 64][(round % 4) as usize];
        let barrier = Arc::new(Barrier::new(n_threads));
        let mut hs = Vec::new();
        for t in 0..n_threads {
            let mut rng = Rng::stream(ctx.seed, "C13.hist", round * 1000 + t as u64);
            // few keys: each thread draws from a window of the pool so that threads collide on the same slots and calls
            let len = 200 + rng.usize(if ctx.quick() { 400 } else { 1800 });
            let window = 20 + rng.usize(pool.len() / 2);
            let base = rng.usize(pool.len());
            let mut hist: Vec<usize> = Vec::with_capacity(len + 8);
            while hist.len() < len {
                let a = if rng.chance(0.25) { rng.usize(pool.len()) } else { (base + rng.usize(window)) % pool.len() };
                hist.push(a);
                if rng.chance(0.08) {
                    // revisit motif: a, one to four other calls (neighbours in the pool are relatives: twins, chains), a again,
                    // then a or the first of the others once more - what a small most-recently-used store must survive
                    let k = 1 + rng.usize(4);
                    let others: Vec<usize> = (0..k).map(|_| if rng.chance(0.5) { (a + 1 + rng.usize(4)) % pool.len() } else { rng.usize(pool.len()) }).collect();
                    hist.extend(&others);
                    hist.push(a);
                    hist.push(if rng.chance(0.5) { a } else { others[0] });
                }
            }
            let (p, tb, b) = (pool_arc.clone(), table_arc.clone(), barrier.clone());
            hs.push(std::thread::spawn(move || {
                silence_panics();
                b.wait();
                let (ev, s, e) = run_history(&p, &tb, &hist);
                (ev, s, e, hist)
            }));
        }
        // thread churn while the long-lived threads run
        let mut churn = Vec::new();
        if round % 2 == 1 {
            for c in 0..24 {
                let mut rng = Rng::stream(ctx.seed, "C13.churn", round * 1000 + c);
                let hist: Vec<usize> = (0..3).map(|_| rng.usize(pool.len())).collect();
                let (p, tb) = (pool_arc.clone(), table_arc.clone());
                churn.push(std::thread::spawn(move || {
                    silence_panics();
                    let (ev, s, e) = run_history(&p, &tb, &hist);
                    (ev, s, e, hist)
                }));
            }
        }
        let mut stamps = Vec::new();
        for (t, h) in hs.into_iter().enumerate() {
            match h.join() {
                Ok((ev, s, e, hist)) => {
                    judge(&mut run, &pool, &table, &ev, &hist, t, n_threads, &mut cover, &mut orders, "barrier");
                    stamps.push((s, e));
                    run.countn(&format!("threads_{n_threads:02}.events"), ev.len() as u64);
                }
                Err(_) => run.violation("C13.history", json!({"threads": n_threads}), "a history thread panicked outside the guarded calls".to_string()),
            }
        }
        for (t, h) in churn.into_iter().enumerate() {
            if let Ok((ev, _, _, hist)) = h.join() {
                judge(&mut run, &pool, &table, &ev, &hist, t, n_threads, &mut cover, &mut orders, "churn");
                run.countn("churn.events", ev.len() as u64);
            }
        }
        // how many threads were inside their histories at the same time (sweep over start / end stamps)
        let mut marks: Vec<(Instant, i32)> = stamps.iter().flat_map(|s| [(s.0, 1), (s.1, -1)]).collect();
        marks.sort();
        let (mut cur, mut peak) = (0, 0);
        for (_, d) in marks {
            cur += d;
            peak = peak.max(cur);
        }
        max_concurrency = max_concurrency.max(peak as u64);
        if peak >= 2 {
            overlapping_rounds += 1;
        }
        if peak as usize == n_threads {
            fully_overlapping_rounds += 1;
        }
        run.count(&format!("rounds.threads_{n_threads:02}"));
    }
    run.countn("rounds.at_least_two_threads_inside_their_histories_at_once", overlapping_rounds);
    run.countn("rounds.all_threads_inside_their_histories_at_once", fully_overlapping_rounds);
    run.countn("max_threads_inside_their_histories_at_once", max_concurrency);
    // on a loaded machine late threads may start after early ones have finished; the run is only inconclusive when
    // hardly any round saw two histories overlap at all
    if overlapping_rounds * 4 < rounds {
        run.inconclusive(format!("two or more histories overlapped in time in only {overlapping_rounds} of {rounds} rounds"));
    }

    // (2b) repeat sweep: many more distinct calls than the pool holds - exact cell corners (where the lookup's nearest-cell
    // fallback and its tie-breaks live), random cells' geometry and hierarchy - each executed three times: in order, again in
    // reverse order on the same thread, and in a freshly spawned thread; all three must agree bit for bit
    let sweep = crate::report::parallel(ctx.threads, |w, r| {
        let mut rng = Rng::stream(ctx.seed, "C13.sweep", w as u64);
        let per = ctx.n(150_000, 4_000_000) / ctx.threads as u64;
        let mut list: Vec<Call> = Vec::new();
        while (list.len() as u64) < per {
            let res = 2 + rng.below(28) as i32;
            let c = gen::random_cell(&mut rng, res);
            let id = encode(c);
            match rng.below(5) {
                0 | 1 => {
                    if let Ok(Ok(ring)) = guard(|| a5::cell_to_boundary(id, Some(a5::core::cell::CellToBoundaryOptions { closed_ring: false, segments: Some(1) }))) {
                        for p in ring {
                            let r2 = (res + rng.below(3) as i32 - 1).clamp(2, MAX_RES);
                            list.push(Call::Lookup { lon: p.longitude(), lat: p.latitude(), res: r2 });
                        }
                    }
                }
                2 => list.push(Call::CellToLonLat(id)),
                3 => list.push(Call::Boundary { id, closed: rng.chance(0.5), segments: Some(1 + rng.below(4) as i32) }),
                _ => {
                    list.push(Call::Parent { id, res: Some((res - 1 - rng.below(3) as i32).max(-1)) });
                    list.push(Call::Children { id, res: Some((res + rng.below(3) as i32).min(MAX_RES)) });
                }
            }
        }
        let first: Vec<u64> = list.iter().map(|c| c.exec().digest()).collect();
        let second: Vec<u64> = list.iter().rev().map(|c| c.exec().digest()).collect::<Vec<_>>().into_iter().rev().collect();
        let l2 = list.clone();
        let third: Vec<u64> = std::thread::spawn(move || {
            silence_panics();
            l2.iter().map(|c| c.exec().digest()).collect()
        })
        .join()
        .unwrap_or_default();
        for (i, c) in list.iter().enumerate() {
            r.evaluations += 3;
            r.count("repeat_sweep.calls");
            let ok = first[i] == second[i] && third.get(i) == Some(&first[i]);
            if !ok {
                r.violation(
                    "C13.repeat",
                    json!({"call": c.to_text()}),
                    format!("`{}` gave different results when repeated: digests {:016x} (in order), {:016x} (reverse order, same thread), {:016x?} (fresh thread)", c.to_text(), first[i], second[i], third.get(i)),
                );
            }
            r.nontrivial(mix(first[i], i as u64));
        }
    });
    run.merge(sweep);

    // (2c) narrow-counter probe: P, then the same call Q repeated 2^k - 1 (+-1) times, then P again, for k = 8 and 16, on one
    // thread: the second answer for P must equal the first (a per-thread stamp or sequence number kept in 8 or 16 bits
    // wraps around exactly there)
    let probe = crate::report::parallel(6.min(ctx.threads), |w, r| {
        let period: u64 = [255, 256, 257, 65535, 65536, 65537][w % 6];
        let mut rng = Rng::stream(ctx.seed, "C13.wrap", w as u64);
        let fr = Frame::new();
        for _ in 0..ctx.n(2, 12) {
            let res = 4 + rng.below(20) as i32;
            let (plon, plat) = gen::point(&mut rng, &fr, "uniform");
            let (qlon, qlat) = gen::point(&mut rng, &fr, "uniform");
            let p = Call::Lookup { lon: plon, lat: plat, res };
            let q = Call::Lookup { lon: qlon, lat: qlat, res };
            let first = p.exec().digest();
            let qd = q.exec().digest();
            let mut q_changed = false;
            for _ in 1..(period - 1) {
                q_changed |= q.exec().digest() != qd;
            }
            let again = p.exec().digest();
            r.evaluations += period;
            r.count("wrap_probe.sequences");
            if again != first || q_changed {
                r.violation(
                    "C13.repeat",
                    json!({"call": p.to_text(), "intervening_call": q.to_text(), "period": period}),
                    format!("`{}` changed its answer after {} repetitions of `{}` on the same thread", p.to_text(), period - 1, q.to_text()),
                );
            }
        }
    });
    run.merge(probe);

    // (2d) memo-slot aliasing corpus: the memo of spherical triangles is indexed by 10 * face + triangle (+ 120 for the reflected
    // triangles). For each of the 120 (face, triangle) pairs, in a fresh thread: first the call that fills the reflected slot of
    // face f, then a call whose (out of range) face number f + 12 computes the very same index without the reflection offset.
    // The second call must answer exactly what it answers alone (defect D8 answered from the other call's slot).
    {
        let mut rng = Rng::stream(ctx.seed, "C13.alias", 0);
        for face in 0..12u8 {
            for s in 0..10usize {
                let (ax, ay) = sector_point(&mut rng, s, true);
                let (bx, by) = sector_point(&mut rng, s, false);
                let filler = Call::Inverse { x: ax, y: ay, face };
                let probe = Call::Inverse { x: bx, y: by, face: face + 12 };
                let (p1, p2) = (probe.clone(), probe.clone());
                let alone = std::thread::spawn(move || {
                    silence_panics();
                    p1.exec()
                })
                .join();
                let after = std::thread::spawn(move || {
                    silence_panics();
                    let _ = filler.exec();
                    p2.exec()
                })
                .join();
                run.evaluations += 1;
                run.count("alias_corpus.pairs");
                if let (Ok(a), Ok(b)) = (alone, after) {
                    if a.digest() != b.digest() {
                        run.violation(
                            "C13.history",
                            json!({"call": probe.to_text(), "preceded_by": (Call::Inverse { x: ax, y: ay, face }).to_text()}),
                            format!(
                                "`{}` returns [{}] when executed first in a fresh thread but [{}] right after `{}` (the two calls compute the same memo slot)",
                                probe.to_text(),
                                a.short(),
                                b.short(),
                                (Call::Inverse { x: ax, y: ay, face }).to_text()
                            ),
                        );
                    }
                }
            }
        }
    }

    // (2e) teardown probe: an application object stored in a thread-local BEFORE the thread's first library call is destroyed
    // after whatever the library keeps per thread; its destructor calls the library once more. The answer must be the one the
    // call gives anywhere else (a per-thread store with a destructor of its own would already be gone at that point).
    {
        use std::cell::RefCell;
        use std::sync::mpsc::{channel, Sender};
        struct AtExit(Call, Sender<Outcome>);
        impl Drop for AtExit {
            fn drop(&mut self) {
                let _ = self.1.send(self.0.exec());
            }
        }
        thread_local! { static AT_EXIT: RefCell<Option<AtExit>> = const { RefCell::new(None) }; }
        let mut rng = Rng::stream(ctx.seed, "C13.teardown", 0);
        let candidates: Vec<usize> = (0..pool.len()).filter(|i| table[*i].kind != "panic").collect();
        for _ in 0..ctx.n(24, 400) {
            let k = candidates[rng.usize(candidates.len())];
            let before: Vec<usize> = (0..rng.usize(6)).map(|_| candidates[rng.usize(candidates.len())]).collect();
            let (tx, rx) = channel();
            let (probe, p2) = (pool[k].clone(), pool_arc.clone());
            let h = std::thread::spawn(move || {
                silence_panics();
                AT_EXIT.with(|e| *e.borrow_mut() = Some(AtExit(probe, tx)));
                for i in before {
                    let _ = p2[i].exec();
                }
            });
            let _ = h.join();
            run.evaluations += 1;
            run.count("teardown_probe.threads");
            match rx.recv_timeout(std::time::Duration::from_secs(20)) {
                Ok(o) => {
                    if o.digest() != table[k].digest {
                        run.violation(
                            "C13.history",
                            json!({"call": pool[k].to_text(), "at": "thread teardown"}),
                            format!("`{}` executed from a destructor at thread exit returned [{}], but [{}] when executed first in a fresh thread", pool[k].to_text(), o.short(), table[k].short),
                        );
                    }
                }
                Err(_) => run.inconclusive("the teardown probe's destructor did not report (thread-local destructors not run?)".to_string()),
            }
        }
    }

    // (3) first-touch processes: the one-shot global initialisations race exactly once per process
    let n_proc = ctx.n(48, 600);
    let public: Vec<(usize, &Call)> = pool.iter().enumerate().filter(|(_, c)| !matches!(c, Call::Forward { .. } | Call::Inverse { .. })).collect();
    let stdin_text: String = public.iter().map(|(i, c)| format!("{i} {}\n", c.to_text())).collect();
    let mut first_ok = 0u64;
    for round in 0..n_proc {
        use std::io::Write;
        use std::process::Stdio;
        let child = std::process::Command::new(&exe).arg("c13-first-touch").arg(ctx.seed.to_string()).arg(round.to_string()).stdin(Stdio::piped()).stdout(Stdio::piped()).stderr(Stdio::inherit()).spawn();
        let Ok(mut child) = child else {
            run.inconclusive("could not start a first-touch process".to_string());
            break;
        };
        child.stdin.take().unwrap().write_all(stdin_text.as_bytes()).ok();
        let Ok(o) = child.wait_with_output() else { continue };
        let text = String::from_utf8_lossy(&o.stdout);
        let mut n = 0;
        for l in text.lines() {
            let Some((i, d)) = l.split_once(' ') else { continue };
            let (Ok(i), Ok(d)) = (i.parse::<usize>(), u64::from_str_radix(d, 16)) else { continue };
            run.evaluations += 1;
            n += 1;
            if d != table[i].digest {
                run.violation(
                    "C13.first_touch",
                    json!({"call": pool[i].to_text(), "round": round}),
                    format!("`{}` gives a different result when it is among the first calls of a process, issued by 16 threads at once (expected [{}])", pool[i].to_text(), table[i].short),
                );
            }
        }
        if n == 16 * 6 && o.status.success() {
            first_ok += 1;
        } else {
            run.violation("C13.first_touch", json!({"round": round}), format!("first-touch process produced {n} of 96 results (exit {:?})", o.status.code()));
        }
    }
    run.countn("first_touch.processes", first_ok);

    // slot coverage (hook H2)
    let cold_seen = cover.cold.iter().filter(|b| **b).count();
    let warm_seen = cover.warm.iter().filter(|b| **b).count();
    run.countn("slots.seen_cold_in_histories", cold_seen as u64);
    run.countn("slots.seen_warm_in_histories", warm_seen as u64);
    run.countn("distinct_memo_fill_orders", orders.len() as u64);
    if cfg!(feature = "hooks") && (addressed.len() < N_SLOTS || cold_seen < N_SLOTS || warm_seen < N_SLOTS) {
        run.inconclusive(format!("memo slots addressed {} / cold {} / warm {} of {N_SLOTS}", addressed.len(), cold_seen, warm_seen));
    }
    run.sample("history_event", || json!({"call": pool[3].to_text(), "cold_result": table[3].short, "slots_addressed": table[3].addresses}));
    run.sample("history_event", || json!({"call": pool[pool.len() - 20].to_text(), "cold_result": table[pool.len() - 20].short}));
    run
}

fn replay(check: &str, case: &Value, run: &mut Run) -> Option<()> {
    if !check.starts_with("C13.") {
        return None;
    }
    let call = Call::from_text(case.get("call")?.as_str()?)?;
    let cold = cold_exec(&call).ok()?;
    let prefix: Vec<Call> = case.get("preceding_calls_same_thread").and_then(|v| v.as_array()).map(|a| a.iter().filter_map(|t| Call::from_text(t.as_str()?)).collect()).unwrap_or_default();
    let c2 = call.clone();
    let warm = std::thread::spawn(move || {
        silence_panics();
        for p in &prefix {
            p.exec();
        }
        c2.exec()
    })
    .join()
    .ok()?;
    run.evaluations += 1;
    println!("replay: cold [{}]  after the recorded prefix [{}]", cold.short, warm.short());
    if warm.digest() != cold.digest {
        run.violation("C13.history", case.clone(), format!("`{}` differs after the recorded prefix", call.to_text()));
    }
    // and under contention: 8 threads running the same call cold at once
    let barrier = Arc::new(Barrier::new(8));
    let hs: Vec<_> = (0..8)
        .map(|_| {
            let (b, c) = (barrier.clone(), call.clone());
            std::thread::spawn(move || {
                silence_panics();
                b.wait();
                c.exec().digest()
            })
        })
        .collect();
    for h in hs {
        if h.join().ok() != Some(cold.digest) {
            run.violation("C13.history", case.clone(), format!("`{}` differs when 8 threads run it cold at once", call.to_text()));
            break;
        }
    }
    Some(())
}
