//! C01 — point lookup returns a containing cell of the requested resolution (DESIGN §6 C01)
use crate::gen::{self, Frame};
use crate::geom::*;
use crate::model::*;
use crate::mon::Monitor;
use crate::orc::*;
use crate::report::*;
use crate::rng::{mix, Rng};
use crate::Ctx;
use serde_json::{json, Value};

pub const MONITOR: Monitor = Monitor {
    id: "C01",
    rule: "one evaluation = one lonlat_to_cell call judged by the planar signed-distance oracle O1 (and, for every 4th call, by the \
           public-API ring oracle O2); non-trivial = distinct (lon bits, lat bits, resolution) whose point lies within 1e-3 cell sizes of a \
           cell edge, or that took a probe/fallback branch (hook H1), or that belongs to a polar / antimeridian / seam / vertex / \
           face-centre / cell-edge / wrapped-longitude class",
    run,
    replay,
};

pub fn case_json(lon: f64, lat: f64, res: i32, class: &str) -> Value {
    json!({ "lon": fj(lon), "lat": fj(lat), "res": res, "class": class })
}

thread_local! {
    /// hook H1 reading of the lookup most recently judged on this thread: (branch, probe index, estimates tried)
    static LAST_BRANCH: std::cell::Cell<(u8, u8, u8)> = const { std::cell::Cell::new((255, 0, 0)) };
}

/// how hard the lookup had to search: the index of the probe that produced the answer, 26 when no probe did (fallback)
fn search_effort() -> u8 {
    let b = LAST_BRANCH.with(|b| b.get());
    match b.0 {
        3 => 26,
        2 => b.1.min(25),
        _ => 0,
    }
}

/// Hook-guided search for the most fragile lookups: the lookup walks a fixed spiral of probe points around the query until one of
/// them lands in the containing cell; how far it had to walk (hook H1) says how close the call was to finding nothing and
/// falling back to "nearest cell". A small population of points is mutated (offsets of 1e-4 .. 0.3 cell sizes, and the same
/// place at neighbouring resolutions), keeping those that made the lookup walk furthest. Every lookup made on the way is judged
/// like any other; on a tree whose spiral is coarser or shorter the points found here are the first to get a wrong answer.
fn fragile_search(run: &mut Run, rng: &mut Rng, fr: &Frame, steps: u64) {
    let mut elite: Vec<(u8, f64, f64, i32)> = Vec::new();
    let cap = 48;
    for step in 0..steps {
        let (lon, lat, res) = if elite.len() < cap || step % 4 == 0 {
            // fresh blood: a point hugging a corner or an edge of some cell, or any hostile point
            match celledge_point(rng, fr, run) {
                Some((lo, la, r)) if r >= 2 => (lo, la, r),
                _ => {
                    let class = *rng.pick(&gen::POINT_CLASSES);
                    let (lo, la) = gen::point(rng, fr, class);
                    (lo, la, gen::random_res(rng).max(2))
                }
            }
        } else {
            let (_, lo, la, r) = elite[rng.usize(elite.len())];
            let v = unit_from_lonlat(lo, la);
            let eps = cell_size(r) * 10f64.powf(rng.range(-4.0, -0.5));
            let (nlo, nla) = lonlat_from_unit(gen::nudge(rng, v, eps));
            let nr = if rng.chance(0.15) { (r + rng.below(3) as i32 - 1).clamp(2, MAX_RES) } else { r };
            (nlo, nla, nr)
        };
        check_lookup(run, lon, lat, res, "fragile_search", false);
        let effort = search_effort();
        run.count(&format!("fragile_search.probe_index.{effort:02}"));
        // a fallback on a point that sits on an edge or a vertex to within rounding is legitimate and says nothing about the
        // spiral: it is judged like every lookup but not bred from
        let effort = if effort == 26 { 0 } else { effort };
        // recorded as a margin: the spiral has 25 probes; how many the hardest lookup needed shows how much reach is to spare
        run.margin("probes_needed_by_the_hardest_lookup_found", effort as f64, 25.0, || case_json(lon, lat, res, "fragile_search"));
        if elite.len() < cap {
            elite.push((effort, lon, lat, res));
        } else if let Some((k, worst)) = elite.iter().enumerate().min_by_key(|(_, e)| e.0).map(|(k, e)| (k, e.0)) {
            if effort >= worst {
                elite[k] = (effort, lon, lat, res);
            }
        }
    }
    let best = elite.iter().map(|e| e.0).max().unwrap_or(0);
    run.count(&format!("fragile_search.best_probe_index_of_a_worker.{best:02}"));
}

/// the oracle for one lookup. Returns the id when the call succeeded.
pub fn check_lookup(run: &mut Run, lon: f64, lat: f64, res: i32, class: &str, with_o2: bool) -> Option<u64> {
    run.evaluations += 1;
    let case = || case_json(lon, lat, res, class);
    let id = match lookup(lon, lat, res) {
        Ok(id) => id,
        Err(e) => {
            run.violation("C01.ok", case(), format!("lonlat_to_cell failed: {e}"));
            return None;
        }
    };
    let branch = last_lookup_branch();
    LAST_BRANCH.with(|b| b.set(branch));
    let cell = match decode(id) {
        Some(c) => c,
        None => {
            run.violation("C01.canonical", case(), format!("returned id {} is not in canonical form", hu(id)));
            return None;
        }
    };
    if cell.res != res {
        run.violation("C01.resolution", case(), format!("returned id {} has resolution {} instead of {}", hu(id), cell.res, res));
        return None;
    }
    let band = lookup_band(lon);
    let d1 = match o1(cell, lon, lat) {
        Ok(d) => d,
        Err(e) => {
            run.violation("C01.ok", case(), format!("placing returned cell {} failed: {e}", hu(id)));
            return None;
        }
    };
    let l = cell_size(res);
    if run.margin("o1_outside_distance_rad", d1 - (band - 1e-12), 1e-12, case) {
        run.violation(
            "C01.contain",
            case(),
            format!("returned cell {} does not contain the point: signed planar distance {:.3e} rad ({:.3e} cell sizes), band {:.2e}", hu(id), d1, d1 / l, band),
        );
    }
    let near_edge = d1.abs() < 1e-3 * l;
    if near_edge {
        run.count("near_edge_1e-3");
    }
    if d1.abs() < 1e-9 * l {
        run.count("near_edge_1e-9");
    }
    match branch.0 {
        0 => run.count("branch.lowres_exact"),
        1 => run.count("branch.first_estimate"),
        2 => run.count("branch.probe_sample"),
        3 => run.count("branch.fallback"),
        _ => run.count("branch.unknown"),
    }
    if near_edge || branch.0 >= 2 || class != "uniform" {
        run.nontrivial(mix(mix(lon.to_bits(), lat.to_bits()), res as u64));
    }
    // nearest face at the two coarsest resolutions (C18's oracle)
    let p = unit_from_lonlat(lon, lat);
    if res <= 1 {
        let (f, d0, d1f) = nearest_face(p);
        if d1f - d0 > 1e-9 && cell.face != f {
            run.violation("C01.face", case(), format!("returned face {} but face {} is nearer by {:.3e} rad", cell.face, f, d1f - d0));
        }
    }
    if with_o2 {
        let n = if res <= 8 { 64 } else { 16 };
        match ring_units(id, n) {
            Ok(ring) => {
                let (inside, dist) = o2(&ring, p);
                let band2 = o2_band(res, n) + (band - 1e-12);
                run.count("o2.evaluated");
                if dist <= band2 {
                    run.count("o2.undecided_in_band");
                } else if !inside {
                    run.violation(
                        "C01.contain_ring",
                        case(),
                        format!("point is outside the reported boundary of {} by {:.3e} rad (band {:.2e}, {:.3e} cell sizes)", hu(id), dist, band2, dist / l),
                    );
                }
                if !inside {
                    run.margin("o2_outside_distance_cellsizes", dist / l, f64::INFINITY, case);
                }
            }
            Err(e) => run.violation("C01.ok", case(), format!("cell_to_boundary of returned cell {} failed: {e}", hu(id))),
        }
    }
    if run.wants_sample(class) {
        run.sample(class, || json!({"lon": lon, "lat": lat, "res": res, "id": hu(id), "o1_signed_distance": d1, "branch": branch.0}));
    }
    Some(id)
}

/// points hugging the edges and vertices of an existing cell
fn celledge_point(rng: &mut Rng, fr: &Frame, run: &mut Run) -> Option<(f64, f64, i32)> {
    let base_class = *rng.pick(&gen::POINT_CLASSES);
    let (lon, lat) = gen::point(rng, fr, base_class);
    let res = gen::random_res(rng);
    let id = lookup(lon, lat, res).ok()?;
    let segs = 1 + rng.below(8) as i32;
    let opts = a5::core::cell::CellToBoundaryOptions { closed_ring: false, segments: Some(segs) };
    let ring = guard(|| a5::cell_to_boundary(id, Some(opts))).ok()?.ok()?;
    if ring.is_empty() {
        return None;
    }
    let v = ring[rng.usize(ring.len())];
    if rng.chance(0.25) {
        run.count("celledge.exact_ring_point");
        return Some((v.longitude(), v.latitude(), res));
    }
    let c = centre_unit(id).ok()?;
    let vu = unit_from_lonlat(v.longitude(), v.latitude());
    let eps = rng.log10(0.0, 16.0) * rng.sign();
    let q = normalize(add(vu, scale(sub(c, vu), eps)));
    let (lo, la) = lonlat_from_unit(q);
    // a finer or coarser resolution than the cell the point came from is hostile too
    let res2 = if rng.chance(0.2) { gen::random_res(rng) } else { res };
    Some((lo, la, res2))
}

fn deterministic_corpus(run: &mut Run) {
    // exact poles x 36 longitudes x all resolutions
    for res in 0..=29 {
        for k in 0..36 {
            let lon = -180.0 + 10.0 * k as f64 + 0.123;
            check_lookup(run, lon, 90.0, res, "pole", k % 6 == 0);
            check_lookup(run, lon, -90.0, res, "pole", k % 6 == 0);
        }
    }
    // regression inputs of the defects repaired by the fix commits (known_findings.json: D1, D2)
    check_lookup(run, 321.02070999558555, 89.46143628038485, 2, "regression.D1", true);
    check_lookup(run, 128.45923476217519, -6.8983534829103546, 5, "regression.D2", true);
    check_lookup(run, -94.00024804929757, -89.9999999998154, 29, "regression.D5", true);
    for res in 2..=29 {
        check_lookup(run, 321.02070999558555, 89.46143628038485, res, "regression.D1", false);
    }
}

fn run(ctx: &Ctx) -> Run {
    silence_panics();
    let total = ctx.n(2_000_000, 200_000_000);
    let per = total / ctx.threads as u64;
    let mut out = parallel(ctx.threads, |w, run| {
        let fr = Frame::new();
        let mut rng = ctx.rng("C01", w);
        if w == 0 {
            deterministic_corpus(run);
        }
        fragile_search(run, &mut rng, &fr, per / 6);
        let mut recent: Vec<(f64, f64, i32)> = Vec::new();
        for i in 0..per {
            let roll = rng.f();
            let (mut lon, lat, res, mut class): (f64, f64, i32, &str) = if roll < 0.5 {
                match celledge_point(&mut rng, &fr, run) {
                    Some((lo, la, r)) => (lo, la, r, "celledge"),
                    None => continue,
                }
            } else {
                let class = *rng.pick(&gen::POINT_CLASSES);
                let (lo, la) = gen::point(&mut rng, &fr, class);
                (lo, la, gen::random_res(&mut rng), class)
            };
            if rng.chance(0.12) {
                lon = gen::wrap(&mut rng, lon);
                class = "wrap";
            }
            run.count(&format!("class.{class}"));
            run.count(&format!("res.{res:02}"));
            if i % 16 == 7 && res >= 2 {
                // history: the twin of the cell about to be returned (same resolution and curve position on another face /
                // quintant) is placed and looked up immediately before
                if let Some(c) = lookup(lon, lat, res).ok().and_then(decode) {
                    let t = rng.below(60) as u8;
                    let twin = encode(MCell::new(res, t / 5, t % 5, c.s));
                    if let Ok(Ok(p)) = guard(|| a5::cell_to_lonlat(twin)) {
                        let _ = lookup(p.longitude(), p.latitude(), res);
                    }
                    run.count("primed_with_the_twin_cell");
                }
            }
            if i % 16 == 11 {
                // revisit pattern: this lookup, one to four earlier ones, this lookup again - immediately before it is judged
                let _ = lookup(lon, lat, res);
                for _ in 0..1 + rng.below(4) {
                    if let Some((lo, la, r)) = recent.get(rng.usize(recent.len().max(1))).copied() {
                        let _ = lookup(lo, la, r);
                    }
                }
                let _ = lookup(lon, lat, res);
                run.count("primed_with_a_revisit_pattern");
            } else if i % 64 == 13 {
                failed_call_history(&mut rng);
                run.count("primed_with_rejected_calls");
            }
            if recent.len() < 8 {
                recent.push((lon, lat, res));
            } else {
                let k = (i as usize / 3) % 8;
                recent[k] = (lon, lat, res);
            }
            check_lookup(run, lon, lat, res, class, i % 4 == 0);
            // coordinate twins right after: longitude and latitude swapped, and the doubled / halved pair
            if i % 16 == 3 && lon.abs() <= 90.0 {
                check_lookup(run, lat, lon, res, "swapped", false);
                check_lookup(run, lon / 2.0, lat / 2.0, res, "halved", false);
                run.count("class.swapped_or_halved");
            }
        }
    });
    // promised strata
    for class in gen::POINT_CLASSES.iter().chain(["celledge", "wrap"].iter()) {
        if out.counters.get(&format!("class.{class}")).copied().unwrap_or(0) == 0 {
            out.inconclusive(format!("point class {class} was not exercised"));
        }
    }
    for res in 0..=29 {
        if out.counters.get(&format!("res.{res:02}")).copied().unwrap_or(0) == 0 {
            out.inconclusive(format!("resolution {res} was not exercised"));
        }
    }
    out
}

fn replay(check: &str, case: &Value, run: &mut Run) -> Option<()> {
    if !check.starts_with("C01.") {
        return None;
    }
    let lon = parse_f(&case["lon"])?;
    let lat = parse_f(&case["lat"])?;
    let res = case["res"].as_i64()? as i32;
    let id = check_lookup(run, lon, lat, res, "replay", true);
    if let Some(id) = id {
        if let Some(c) = decode(id) {
            println!("replay: lonlat_to_cell({lon:?}, {lat:?}, {res}) = {} ; O1 signed distance = {:?}", hu(id), o1(c, lon, lat));
        }
    }
    Some(())
}
