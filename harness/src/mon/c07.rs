//! C07 — parent/children form one consistent tree over all resolutions (DESIGN §6 C07)
use crate::gen;
use crate::model::*;
use crate::mon::Monitor;
use crate::orc::*;
use crate::report::*;
use crate::rng::{mix, Rng};
use crate::Ctx;
use serde_json::{json, Value};
use std::collections::HashSet;

pub const MONITOR: Monitor = Monitor {
    id: "C07",
    rule: "one evaluation = one (cell, target resolution) pair: cell_to_children judged against the independent tree model (exact \
           set, count 12/5/4 per level, distinctness, resolution, ancestor of every child through cell_to_parent), plus the composition \
           laws on the same cell; non-trivial = distinct (cell, target) pairs with target > res(cell), i.e. real fan-out",
    run,
    replay,
};

pub const MAX_FANOUT: u128 = 1 << 16; // 4^8

fn case_json(c: MCell, target: i32) -> Value {
    json!({"id": hu(encode(c)), "res": c.res, "target": target})
}

pub fn check_children(run: &mut Run, c: MCell, target: i32, deep: bool) {
    run.evaluations += 1;
    let id = encode(c);
    let case = || case_json(c, target);
    let got = match children(id, Some(target)) {
        Ok(v) => v,
        Err(e) => {
            run.violation("C07.children", case(), format!("cell_to_children failed for a valid cell and target in range: {e}"));
            return;
        }
    };
    let want: Vec<u64> = {
        let mut v: Vec<u64> = children_at(c, target).into_iter().map(encode).collect();
        v.sort_unstable();
        v
    };
    // an accepted alias of the cell (a stray bit below the marker) must name the same node of the tree
    if mix(id, 0xa11a5) % 16 == 0 {
        let mut arng = Rng::stream(id, "C07.alias", target as u64);
        if let Some(w) = stray_alias(&mut arng, c) {
            run.count("aliases.tried");
            if let Ok(v) = children(w, Some(target)) {
                run.count("aliases.accepted_by_the_library");
                if v != got {
                    run.violation("C07.alias", json!({"cell": hu(id), "alias": hu(w), "target": target}), format!("cell_to_children({}) is accepted as an alias of {} but returns different children", hu(w), hu(id)));
                }
            }
            // the default request as well (next finer level)
            if c.res < MAX_RES {
                if let (Ok(va), Ok(vc)) = (children(w, None), children(id, None)) {
                    if va != vc {
                        run.violation("C07.alias", json!({"cell": hu(id), "alias": hu(w), "target": "default"}), format!("cell_to_children({}, None) is accepted as an alias of {} but returns different children", hu(w), hu(id)));
                    }
                }
            }
            if let (Ok(pa), Ok(pc)) = (parent(w, None), parent(id, None)) {
                if pa != pc {
                    run.violation("C07.alias", json!({"cell": hu(id), "alias": hu(w), "target": target}), format!("cell_to_parent({}) = {} but the aliased cell's parent is {}", hu(w), hu(pa), hu(pc)));
                }
            }
        }
    }
    if got.len() as u128 != fanout(c.res, target) {
        run.violation("C07.count", case(), format!("{} children, the hierarchy dictates {}", got.len(), fanout(c.res, target)));
    }
    let mut sorted = got.clone();
    sorted.sort_unstable();
    if sorted.windows(2).any(|w| w[0] == w[1]) {
        run.violation("C07.distinct", case(), "children are not pairwise distinct".to_string());
    }
    if sorted != want {
        let bad = sorted.iter().find(|x| want.binary_search(x).is_err()).copied();
        run.violation("C07.children_set", case(), format!("children differ from the tree model (first unexpected id: {:?})", bad.map(hu)));
    }
    // every child is of the target resolution and has c as its ancestor (through the library's own parent function)
    let stride = if deep { 1 } else { (got.len() / 64).max(1) };
    for k in got.iter().step_by(stride) {
        match decode(*k) {
            Some(kc) if kc.res == target => {}
            _ => {
                run.violation("C07.child_resolution", case(), format!("child {} is not a canonical id of resolution {target}", hu(*k)));
                break;
            }
        }
        match parent(*k, Some(c.res)) {
            Ok(p) if p == id => {}
            other => {
                run.violation("C07.child_ancestor", case(), format!("cell_to_parent({}, {}) = {:?}, expected the cell itself", hu(*k), c.res, other.map(hu)));
                break;
            }
        }
    }
    if target > c.res {
        run.nontrivial(mix(id, target as u64));
        if c.res >= 2 && run.wants_sample("children") {
            run.sample("children", || json!({"cell": hu(id), "res": c.res, "target": target, "children_returned": got.len(), "first": got.first().map(|x| hu(*x)), "last": got.last().map(|x| hu(*x))}));
        }
    }
    // default target = one level finer
    if target == c.res + 1 {
        match children(id, None) {
            Ok(v) if v == got => {}
            other => run.violation("C07.default_children", case(), format!("cell_to_children(c, None) differs from target res+1: {:?}", other.map(|v| v.len()))),
        }
    }
    // children of children = children at the deeper level
    if target > c.res + 1 && got.len() <= 4096 {
        let mid = c.res + 1 + ((id >> 7) % (target - c.res - 1) as u64) as i32;
        if let Ok(mids) = children(id, Some(mid)) {
            let mut via: Vec<u64> = Vec::with_capacity(got.len());
            for m in &mids {
                match children(*m, Some(target)) {
                    Ok(v) => via.extend(v),
                    Err(e) => {
                        run.violation("C07.children", case(), format!("cell_to_children({}, {target}) failed: {e}", hu(*m)));
                        return;
                    }
                }
            }
            via.sort_unstable();
            if via != sorted {
                run.violation("C07.children_compose", case(), format!("children via resolution {mid} differ from direct children"));
            }
            run.count("compose.children_of_children");
        }
    }
}

pub fn check_parents(run: &mut Run, c: MCell) {
    run.evaluations += 1;
    let id = encode(c);
    let case = |a: i32, b: i32| json!({"id": hu(id), "res": c.res, "a": a, "b": b});
    // ancestor at every level agrees with the model; composition parent(parent(c,a),b) = parent(c,b)
    let mut chain: Vec<u64> = Vec::new();
    for a in -1..=c.res {
        match parent(id, Some(a)) {
            Ok(p) => {
                if p != encode(parent_at(c, a).unwrap()) {
                    run.violation("C07.parent", case(a, a), format!("cell_to_parent(c, {a}) = {}, tree model {}", hu(p), hu(encode(parent_at(c, a).unwrap()))));
                }
                chain.push(p);
            }
            Err(e) => {
                run.violation("C07.parent", case(a, a), format!("cell_to_parent(c, {a}) failed: {e}"));
                return;
            }
        }
    }
    for (ia, a) in (-1..=c.res).enumerate() {
        for (ib, b) in (-1..=a).enumerate() {
            if (ia + ib) % 3 != 0 && c.res > 6 {
                continue; // thin out the quadratic number of pairs for deep cells
            }
            match parent(chain[ia], Some(b)) {
                Ok(p) if p == chain[ib] => run.count("compose.parent_of_parent"),
                other => run.violation("C07.parent_compose", case(a, b), format!("parent(parent(c,{a}),{b}) = {:?}, parent(c,{b}) = {}", other.map(hu), hu(chain[ib]))),
            }
        }
    }
    // a cell and its ancestors at power-of-two jumps decoded alternately (ids that agree in all but the marker position)
    for jump in [1, 2, 4, 8, 16] {
        let t = c.res - jump;
        if t < 0 {
            break;
        }
        let anc = parent_at(c, t).unwrap();
        let aid = encode(anc);
        let steps: [(u64, MCell, i32); 3] = [(id, c, (c.res - 1).max(-1)), (aid, anc, (t - 1).max(-1)), (id, c, t)];
        for (x, xc, target) in steps {
            match parent(x, Some(target)) {
                Ok(p) if p == encode(parent_at(xc, target).unwrap()) => run.count("alternating.cell_and_ancestor"),
                other => run.violation("C07.parent", case(target, jump), format!("cell_to_parent({}, {target}) = {:?} right after handling its {jump}-level relative; tree model {}", hu(x), other.map(hu), hu(encode(parent_at(xc, target).unwrap())))),
            }
        }
        if t < MAX_RES {
            match children(aid, Some(t + 1)) {
                Ok(v) => {
                    let mut got = v.clone();
                    got.sort_unstable();
                    let mut want: Vec<u64> = children_at(anc, t + 1).into_iter().map(encode).collect();
                    want.sort_unstable();
                    if got != want {
                        run.violation("C07.children_set", case(t + 1, jump), format!("children of {} differ from the tree model right after handling its {jump}-level descendant", hu(aid)));
                    }
                }
                Err(e) => run.violation("C07.children", case(t + 1, jump), format!("cell_to_children({}, {}) failed: {e}", hu(aid), t + 1)),
            }
        }
    }
    if c.res >= 0 {
        match parent(id, None) {
            Ok(p) if p == chain[c.res as usize] => {}
            other => run.violation("C07.default_parent", case(c.res - 1, c.res - 1), format!("cell_to_parent(c, None) = {:?}", other.map(hu))),
        }
    }
}

fn run(ctx: &Ctx) -> Run {
    silence_panics();
    let exhaustive_to: i32 = if ctx.quick() { 7 } else { 9 };
    let threads = ctx.threads;
    let mut out = parallel(threads, |w, run| {
        let mut rng = ctx.rng("C07", w);
        // (1) exhaustive: every cell of resolution -1..=exhaustive_to, every target with bounded fan-out; the children of all
        // cells of r enumerate r+1 exactly once (checked per worker on its share, shares are disjoint subtrees)
        for res in -1..=exhaustive_to {
            let roots = children_at(WORLD, res.min(1));
            let mut next_level: HashSet<u64> = HashSet::new();
            let mut parents_here = 0u64;
            for (k, c0) in roots.into_iter().enumerate() {
                if k % threads != w {
                    continue;
                }
                let cells: Vec<MCell> = if res <= 1 { vec![c0] } else { children_at(c0, res) };
                for c in cells {
                    parents_here += 1;
                    for target in c.res..=MAX_RES {
                        if fanout(c.res, target) > MAX_FANOUT {
                            break;
                        }
                        // all targets for coarse cells; for the many fine cells the next two levels and a rotating deeper one
                        let (all_upto, deep_cap) = if ctx.quick() { (2, 1024) } else { (4, 4096) };
                        let pick = res <= all_upto || target <= c.res + 2 || ((c.s % 5) as i32 + target) % 5 == 0 && fanout(c.res, target) <= deep_cap;
                        if pick {
                            check_children(run, c, target, target <= c.res + 1);
                        }
                    }
                    if res <= 5 || c.s % 7 == 0 {
                        check_parents(run, c);
                    }
                    if res < MAX_RES {
                        if let Ok(v) = children(encode(c), Some(res + 1)) {
                            for k in v {
                                if !next_level.insert(k) {
                                    run.violation("C07.enumerate_once", case_json(c, res + 1), format!("cell {} is a child of two parents", hu(k)));
                                }
                            }
                        }
                    }
                }
            }
            run.countn(&format!("exhaustive.res{:+03}.parents", res), parents_here);
            run.countn(&format!("exhaustive.res{:+03}.children_enumerated", res), next_level.len() as u64);
        }
        // (2) random / constructed cells at every resolution x all targets in range
        let n = ctx.n(400_000, 8_000_000) / threads as u64;
        for _ in 0..n {
            // error paths must leave nothing behind: now and then a few rejected calls precede the judged ones
            if rng.below(64) == 0 {
                crate::orc::failed_call_history(&mut rng);
            }
            let res = rng.below(31) as i32 - 1;
            let c = gen::random_cell(&mut rng, res);
            let max_t = (res..=MAX_RES).take_while(|t| fanout(res, *t) <= MAX_FANOUT).last().unwrap();
            let target = res + rng.below((max_t - res + 1) as u64) as i32;
            check_children(run, c, target, false);
            if rng.chance(0.2) {
                check_parents(run, c);
            }
            // 32-bit twins: the same cell with one curve bit flipped in each half of the word (ids that collide when a
            // 64-bit id is truncated or folded to 32 bits), handled directly one after the other
            if res >= 17 && rng.chance(0.3) {
                let m = marker_bit(res);
                let lo_bits: Vec<u32> = ((m + 1)..26).collect();
                if !lo_bits.is_empty() {
                    let j = lo_bits[rng.usize(lo_bits.len())];
                    let twin = encode(c) ^ (1u64 << j) ^ (1u64 << (j + 32));
                    if let Some(tc) = decode(twin) {
                        let t2 = (tc.res + 1).min(MAX_RES);
                        check_children(run, c, t2, true);
                        check_children(run, tc, t2, true);
                        check_parents(run, tc);
                        run.count("twins.32_bit_fold");
                    }
                }
            }
            run.count(&format!("random.res{:+03}", res));
        }
        // world cell and the aperture changes on every face
        if w == 0 {
            for t in -1..=4 {
                check_children(run, WORLD, t, true);
            }
            for f in 0..12u8 {
                for t in 0..=5 {
                    check_children(run, MCell::new(0, f, 0, 0), t, true);
                }
                for q in 0..5u8 {
                    for t in 1..=6 {
                        check_children(run, MCell::new(1, f, q, 0), t, true);
                    }
                }
            }
            match flatten(guard(a5::get_res0_cells)) {
                Ok(v) => {
                    let mut s = v.clone();
                    s.sort_unstable();
                    let want: Vec<u64> = (0..12u8).map(|f| encode(MCell::new(0, f, 0, 0))).collect();
                    if s != want {
                        run.violation("C07.res0", json!({}), format!("get_res0_cells = {:?}", ids_json(&v)));
                    }
                }
                Err(e) => run.violation("C07.res0", json!({}), format!("get_res0_cells failed: {e}")),
            }
        }
    });
    // the union over workers must be resolution r+1 exactly once
    for res in -1..=exhaustive_to.min(MAX_RES - 1) {
        let got = out.counters.get(&format!("exhaustive.res{:+03}.children_enumerated", res)).copied().unwrap_or(0) as u128;
        let parents = out.counters.get(&format!("exhaustive.res{:+03}.parents", res)).copied().unwrap_or(0) as u128;
        if parents != num_cells(res) {
            out.inconclusive(format!("exhaustive pass visited {parents} of {} cells at resolution {res}", num_cells(res)));
        }
        if got != num_cells(res + 1) {
            out.violation(
                "C07.enumerate_once",
                json!({"res": res}),
                format!("children of all cells of resolution {res} are {got} distinct cells, resolution {} has {}", res + 1, num_cells(res + 1)),
            );
        }
    }
    out.note(format!("exhaustive: every cell of resolution -1..={exhaustive_to}; the children of all cells of r enumerate r+1 exactly once for those r"));
    out
}

fn replay(check: &str, case: &Value, run: &mut Run) -> Option<()> {
    if !check.starts_with("C07.") {
        return None;
    }
    let id = parse_hex_u64(case.get("id")?)?;
    let c = decode(id)?;
    if let Some(t) = case.get("target").and_then(|t| t.as_i64()) {
        check_children(run, c, t as i32, true);
        println!("replay: cell_to_children({}, {t}) -> {:?}", hu(id), children(id, Some(t as i32)).map(|v| v.len()));
    }
    check_parents(run, c);
    Some(())
}
