//! C15 — dodecahedron projection is invertible and maps each face onto its pentagon;
//! C16 — the face projection is area-preserving at every point (DESIGN §6 C15, C16)
use crate::gen::{self, Frame};
use crate::geom::*;
use crate::mon::Monitor;
use crate::orc::*;
use crate::report::*;
use crate::rng::{mix, Rng};
use crate::Ctx;
use a5::coordinate_systems::{Face, Radians, Spherical};
use a5::projections::dodecahedron::DodecahedronProjection;
use serde_json::{json, Value};

pub const MONITOR_C15: Monitor = Monitor {
    id: "C15",
    rule: "one evaluation = one sphere point projected relative to its nearest face (image inside the face pentagon, radius <= 3 - sqrt 5, \
           round trip <= 1e-12 rad) and its second-nearest face (image outside that pentagon up to rounding, round trip <= 1e-11), or one \
           planar point of a face pentagon unprojected and re-projected (<= 1e-12); non-trivial = distinct points of a hostile class \
           (edges, vertices, centres, internal seams, shortcut thresholds) or within 1e-3 of a face edge",
    run: run_c15,
    replay: replay_c15,
};

pub const MONITOR_C16: Monitor = Monitor {
    id: "C16",
    rule: "one evaluation = one planar location of a face (or of the reflected margin beyond an edge) at which the Jacobian of the \
           inverse projection is measured by central differences (h = 1e-6) or by the spherical area of the image of a small triangle with \
           8-fold subdivided edges, and compared with 4 pi / (12 planar face areas); stencils that straddle an internal seam or the face \
           edge are skipped and counted; non-trivial = distinct accepted stencils",
    run: run_c16,
    replay: replay_c16,
};

pub const R_VERTEX: f64 = 0.763_932_022_500_210_3; // 3 - sqrt 5
pub const D_EDGE: f64 = 0.618_033_988_749_894_9; // (sqrt 5 - 1) / 2
pub const LON_OFFSET_DEG: f64 = 93.0;

/// the face pentagon from the documented constants: vertices at radius 3 - sqrt 5, azimuth 36 + 72 k degrees
pub fn face_pentagon() -> [P2; 5] {
    let mut v = [[0.0; 2]; 5];
    for (k, p) in v.iter_mut().enumerate() {
        let a = (36.0 + 72.0 * k as f64).to_radians();
        *p = [R_VERTEX * a.cos(), R_VERTEX * a.sin()];
    }
    v
}

/// geographic-frame unit vector -> the library's internal spherical coordinates (theta = lon + 93 deg, phi = colatitude)
pub fn to_spherical(v: V3) -> Spherical {
    let theta = v[1].atan2(v[0]) + LON_OFFSET_DEG.to_radians();
    let phi = (v[0] * v[0] + v[1] * v[1]).sqrt().atan2(v[2]);
    Spherical::new(Radians::new_unchecked(theta), Radians::new_unchecked(phi))
}
pub fn from_spherical(s: Spherical) -> V3 {
    let (t, p) = (s.theta().get() - LON_OFFSET_DEG.to_radians(), s.phi().get());
    [p.sin() * t.cos(), p.sin() * t.sin(), p.cos()]
}
pub fn fwd(v: V3, face: u8) -> Result<P2, String> {
    let f = flatten(guard(|| DodecahedronProjection::get_thread_local().forward(to_spherical(v), face)))?;
    Ok([f.x(), f.y()])
}
pub fn inv(q: P2, face: u8) -> Result<V3, String> {
    let s = flatten(guard(|| DodecahedronProjection::get_thread_local().inverse(Face::new(q[0], q[1]), face)))?;
    Ok(from_spherical(s))
}

/// The same point of the sphere, handed to `forward` with its theta wound by whole turns (any finite longitude is admitted
/// upstream). The wound coordinate pair IS the input: its true direction is computed here, in the library's own frame, with
/// libm's exactly reduced sin / cos, and the round trip is judged against that. A forward projection that selects its triangle
/// from the unreduced angle drifts by theta x 1e-16 and mis-selects in a sliver along each seam.
pub fn check_wound(run: &mut Run, s: Spherical, face: u8, class: &str, h: u64) {
    let turns = 10f64.powi(2 + (h % 7) as i32) * (1.0 + ((h >> 8) % 9) as f64);
    let sign = if (h >> 20) & 1 == 0 { 1.0 } else { -1.0 };
    let theta = s.theta().get() + sign * turns * std::f64::consts::TAU;
    check_wound_at(run, theta, s.phi().get(), face, class, sign * turns);
}

pub fn check_wound_at(run: &mut Run, theta: f64, phi: f64, face: u8, class: &str, turns: f64) {
    let dir = |t: f64, p: f64| -> V3 { [p.sin() * t.cos(), p.sin() * t.sin(), p.cos()] };
    let u = dir(theta, phi);
    let case = || json!({"theta": hx(theta), "phi": hx(phi), "theta_dec": theta, "turns": turns, "face": face, "class": class});
    run.count("sphere.wound_theta");
    let out = flatten(guard(|| {
        let d = DodecahedronProjection::get_thread_local();
        let q = d.forward(Spherical::new(Radians::new_unchecked(theta), Radians::new_unchecked(phi)), face)?;
        let b = d.inverse(q, face)?;
        Ok::<_, String>((q, b))
    }));
    match out {
        Ok((q, b)) => {
            run.evaluations += 1;
            let e = chord_angle(u, dir(b.theta().get(), b.phi().get()));
            if run.margin("wound_theta.round_trip_rad", e, 1e-12, case) {
                run.violation("C15.roundtrip_wound", case(), format!("inverse(forward(p)) is {:.3e} rad from p when p is given with theta = {theta} (face {face}, planar point ({}, {}))", e, q.x(), q.y()));
            }
            run.nontrivial(mix(theta.to_bits(), mix(phi.to_bits(), face as u64)));
        }
        Err(e) => run.violation("C15.ok", case(), format!("projection of a point given with a wound theta failed: {e}")),
    }
}

fn faces_by_distance(p: V3) -> [(u8, f64); 12] {
    let mut d = [(0u8, 0.0); 12];
    for (i, c) in face_centres().iter().enumerate() {
        d[i] = (i as u8, angle(p, *c));
    }
    d.sort_by(|a, b| a.1.partial_cmp(&b.1).unwrap());
    d
}

fn vjson(v: V3) -> Value {
    json!([hx(v[0]), hx(v[1]), hx(v[2])])
}
fn parse_v3(v: &Value) -> Option<V3> {
    let a = v.as_array()?;
    Some([parse_f(&a[0])?, parse_f(&a[1])?, parse_f(&a[2])?])
}

pub fn check_sphere_point(run: &mut Run, p: V3, class: &str) {
    run.evaluations += 1;
    let case = || json!({"p": vjson(p), "class": class, "lonlat": lonlat_from_unit(p)});
    let order = faces_by_distance(p);
    let pent = face_pentagon();
    let (f0, d0) = order[0];
    let (f1, d1) = order[1];
    // nearest face
    match fwd(p, f0) {
        Ok(q) => {
            let tie = (d1 - d0) * 0.5; // distance to the shared edge, about
            let sd = convex_signed_dist(&pent, q);
            if run.margin("nearest_face.outside_pentagon_rad", sd, 1e-12, case) {
                run.violation("C15.inside_nearest", case(), format!("projection relative to the nearest face {f0} is {:.3e} outside the face pentagon (planar point {:?})", sd, q));
            }
            let r = (q[0] * q[0] + q[1] * q[1]).sqrt();
            if run.margin("nearest_face.radius_excess", r - R_VERTEX, 1e-12, case) {
                run.violation("C15.radius", case(), format!("planar radius {r} exceeds the centre-to-vertex distance {R_VERTEX}"));
            }
            match inv(q, f0) {
                Ok(back) => {
                    let e = chord_angle(p, back);
                    if run.margin("nearest_face.round_trip_rad", e, 1e-12, case) {
                        run.violation("C15.roundtrip_nearest", case(), format!("inverse(forward(p)) is {:.3e} rad from p (face {f0})", e));
                    }
                }
                Err(e) => run.violation("C15.ok", case(), format!("inverse failed: {e}")),
            }
            if sd.abs() < 1e-3 || class != "uniform" {
                run.nontrivial(mix(mix(p[0].to_bits(), p[1].to_bits()), p[2].to_bits()));
            }
            let _ = tie;
        }
        Err(e) => run.violation("C15.ok", case(), format!("forward relative to the nearest face failed: {e}")),
    }
    // second-nearest face: the neighbour across the closest edge. Skip the (measure-zero) vicinity of dodecahedron vertices'
    // three-way ties only when the runner-up and the third are indistinguishable
    // At a face centre all five neighbours tie for second place, at a dodecahedron vertex three faces tie for first: every
    // face that ties for second place is "the" second-nearest face and is judged.
    // (a tie means: indistinguishable at the accuracy of the distance computation itself, 2e-15 rad; a face that is further by
    // more than that is not the second-nearest, and the point is then - by a hair - outside the triangle reflected across the
    // closest edge, where nothing is promised)
    let tied: Vec<u8> = order[1..].iter().filter(|(_, d)| d - d1 < 2e-15).map(|(f, _)| *f).collect();
    if tied.len() > 1 {
        run.count("second_face.ties_all_judged");
    }
    for f1 in tied {
    match fwd(p, f1) {
        Ok(q) => {
            let sd = convex_signed_dist(&pent, q);
            if run.margin("second_face.inside_pentagon_rad", -sd, 1e-12, case) {
                run.violation("C15.outside_second", case(), format!("projection relative to the second-nearest face {f1} lies {:.3e} INSIDE that face's pentagon (planar point {:?})", -sd, q));
            }
            match inv(q, f1) {
                Ok(back) => {
                    let e = chord_angle(p, back);
                    if run.margin("second_face.round_trip_rad", e, 1e-11, case) {
                        run.violation("C15.roundtrip_second", case(), format!("inverse(forward(p)) relative to the second-nearest face {f1} is {:.3e} rad from p", e));
                    }
                }
                Err(e) => run.violation("C15.ok", case(), format!("inverse (second face) failed: {e}")),
            }
        }
        Err(e) => run.violation("C15.ok", case(), format!("forward relative to the second-nearest face failed: {e}")),
    }
    }
    if run.wants_sample(class) {
        run.sample(class, || json!({"lonlat": lonlat_from_unit(p), "nearest_face": f0, "second_face": f1, "planar": fwd(p, f0).ok()}));
    }
}

pub fn check_plane_point(run: &mut Run, q: P2, face: u8, class: &str) {
    run.evaluations += 1;
    let case = || json!({"q": [hx(q[0]), hx(q[1])], "face": face, "class": class, "q_dec": q});
    match inv(q, face).and_then(|s| fwd(s, face)) {
        Ok(q2) => {
            let e = ((q2[0] - q[0]).powi(2) + (q2[1] - q[1]).powi(2)).sqrt();
            if run.margin("plane.round_trip", e, 1e-12, case) {
                run.violation("C15.roundtrip_plane", case(), format!("forward(inverse(q)) is {:.3e} from q on face {face}", e));
            }
            run.nontrivial(mix(mix(q[0].to_bits(), q[1].to_bits()), face as u64));
        }
        Err(e) => run.violation("C15.ok", case(), format!("inverse / forward failed on a point of the face pentagon: {e}")),
    }
}

/// planar point of the face pentagon: azimuth and fraction of the way to the boundary
fn pentagon_point(az: f64, frac: f64) -> P2 {
    // boundary radius in direction az: D_EDGE / cos(angle from the nearest edge normal (multiples of 72 deg))
    let a = az.rem_euclid(std::f64::consts::TAU);
    let k = (a / (72f64.to_radians())).round();
    let off = a - k * 72f64.to_radians();
    let rb = D_EDGE / off.cos();
    [frac * rb * az.cos(), frac * rb * az.sin()]
}

fn hostile_plane_point(rng: &mut Rng) -> (P2, &'static str) {
    match rng.below(7) {
        0 => (pentagon_point(rng.range(0.0, std::f64::consts::TAU), rng.f().sqrt()), "plane.uniform"),
        1 => (pentagon_point(rng.range(0.0, std::f64::consts::TAU), rng.log10(0.0, 16.0)), "plane.centre"),
        2 => {
            // on / next to one of the 10 internal seams (azimuth k * 36 deg)
            // (a fifth of them exactly on the seam, as exactly as the azimuth k * pi / 5 can be written)
            let off = if rng.chance(0.2) { 0.0 } else { rng.log10(3.0, 17.0) * rng.sign() };
            let k = rng.below(10) as f64;
            let az = if rng.chance(0.5) { (36.0 * k).to_radians() } else { k * std::f64::consts::PI / 5.0 } + off;
            let frac = if rng.chance(0.3) { (1 + rng.below(19)) as f64 / 20.0 } else { rng.f() };
            (pentagon_point(az, frac), "plane.seam")
        }
        3 => (pentagon_point(rng.range(0.0, std::f64::consts::TAU), 1.0 - rng.log10(0.0, 16.0)), "plane.edge"),
        4 => {
            let az = (36.0 + 72.0 * rng.below(5) as f64).to_radians() + rng.log10(2.0, 17.0) * rng.sign();
            (pentagon_point(az, 1.0 - rng.log10(0.0, 16.0)), "plane.vertex")
        }
        5 => {
            let az = (72.0 * rng.below(5) as f64).to_radians() + rng.log10(2.0, 17.0) * rng.sign();
            (pentagon_point(az, 1.0 - rng.log10(0.0, 16.0)), "plane.edge_midpoint")
        }
        _ => {
            // where the inverse's near-corner shortcut (barycentric coordinate > 1 - 1e-14) switches: next to triangle corners
            let corner = match rng.below(3) {
                0 => [0.0, 0.0],
                1 => pentagon_point((36.0 + 72.0 * rng.below(5) as f64).to_radians(), 1.0),
                _ => pentagon_point((72.0 * rng.below(5) as f64).to_radians(), 1.0),
            };
            let eps = rng.log10(8.0, 17.0);
            let t = rng.range(0.0, std::f64::consts::TAU);
            let q = [corner[0] + eps * t.cos(), corner[1] + eps * t.sin()];
            let inside = convex_signed_dist(&face_pentagon(), q) <= 0.0;
            (if inside { q } else { corner }, "plane.corner_shortcut")
        }
    }
}

fn run_c15(ctx: &Ctx) -> Run {
    silence_panics();
    let threads = ctx.threads;
    parallel(threads, |w, run| {
        let mut rng = ctx.rng("C15", w);
        let fr = Frame::new();
        // exact-edge sweep (not scaled by the budget): points of the 30 dodecahedron edges themselves, as exactly as a unit
        // vector can be, relative to both adjacent faces - the ratio that decides "on the rim" is 1 up to the rounding of two
        // independently computed lengths there, which is where an assertion or a strict comparison about it trips
        for (k, (i, j)) in fr.edges.iter().enumerate() {
            if k % threads != w {
                continue;
            }
            let m = normalize(add(fr.centres[*i], fr.centres[*j]));
            let mut ends: Vec<V3> = fr.vertices.clone();
            ends.sort_by(|a, b| angle(*a, m).partial_cmp(&angle(*b, m)).unwrap());
            let (va, vb) = (ends[0], ends[1]);
            let per_edge = if ctx.quick() { 6_000 } else { 60_000 };
            for q in 0..=per_edge {
                let t = if q % 3 == 0 { q as f64 / per_edge as f64 } else { rng.range(0.0, 1.0) };
                let p = normalize(add(scale(va, 1.0 - t), scale(vb, t)));
                check_sphere_point(run, p, "edge_exact");
            }
            run.countn("sphere.edge_exact", per_edge as u64 + 1);
        }
        let n = ctx.n(6_000_000, 300_000_000) / threads as u64;
        for _ in 0..n {
            if rng.chance(0.6) {
                let class = *rng.pick(&gen::POINT_CLASSES);
                let (lon, lat) = gen::point(&mut rng, &fr, class);
                // directions are handed over as unit vectors; lon/lat conversions are C19's business
                let v = unit_from_lonlat(lon, lat);
                run.count(&format!("sphere.{class}"));
                check_sphere_point(run, v, class);
            } else {
                let (q, class) = hostile_plane_point(&mut rng);
                let face = rng.below(12) as u8;
                let (q, face, class) = match crate::loci::substitute_plane(&mut rng) {
                    Some((q, face)) => (q, face, "plane.located_discontinuity"),
                    None => (q, face, class),
                };
                run.count(class);
                check_plane_point(run, q, face, class);
                if rng.chance(0.25) {
                    // a point of the face (on a triangle seam as exactly as the plane allows, every other time), unprojected and then
                    // presented to `forward` with its theta wound by 1e2 .. 9e8 turns
                    let q = if rng.chance(0.5) {
                        let az = (36.0 * rng.below(10) as f64).to_radians();
                        let r = rng.range(0.02, 0.98) * if rng.chance(0.5) { D_EDGE } else { 0.7 * D_EDGE };
                        [r * az.cos(), r * az.sin()]
                    } else {
                        q
                    };
                    // winding rounds theta, which moves the point by up to half an ulp of the wound angle (1e-6 rad at 9e8
                    // turns): only points that then still lie inside this face are covered by the nearest-face promise
                    if convex_signed_dist(&face_pentagon(), q) < -1e-5 {
                        if let Ok(s) = flatten(guard(|| DodecahedronProjection::get_thread_local().inverse(Face::new(q[0], q[1]), face))) {
                            check_wound(run, s, face, class, rng.next());
                        }
                    }
                }
                // small-angle branches: sphere points within 1e-9 of a triangle corner, reached through the inverse
                if class == "plane.corner_shortcut" {
                    if let Ok(v) = inv(q, face) {
                        let eps = rng.log10(6.0, 15.0);
                        let p = gen::nudge(&mut rng, v, eps);
                        check_sphere_point(run, p, "near_triangle_corner");
                        run.count("sphere.near_triangle_corner");
                    }
                }
            }
        }
    })
}

fn replay_c15(check: &str, case: &Value, run: &mut Run) -> Option<()> {
    if !check.starts_with("C15.") {
        return None;
    }
    if let Some(p) = case.get("p").and_then(parse_v3) {
        check_sphere_point(run, p, "replay");
        let o = faces_by_distance(p);
        println!("replay: nearest face {} forward {:?}; second face {} forward {:?}", o[0].0, fwd(p, o[0].0), o[1].0, fwd(p, o[1].0));
    } else if check == "C15.roundtrip_wound" || case.get("theta").is_some() {
        let (theta, phi, face) = (parse_f(&case["theta"])?, parse_f(&case["phi"])?, case["face"].as_u64()? as u8);
        check_wound_at(run, theta, phi, face, "replay", case["turns"].as_f64().unwrap_or(0.0));
        println!("replay: forward(theta = {theta}, phi = {phi}; face {face}) and back: worst round trip {:?}", run.margins.get("wound_theta.round_trip_rad").map(|m| m.0));
    } else {
        let q = case.get("q")?.as_array()?;
        let q = [parse_f(&q[0])?, parse_f(&q[1])?];
        let face = case["face"].as_u64()? as u8;
        check_plane_point(run, q, face, "replay");
        println!("replay: inverse({q:?}, {face}) = {:?}", inv(q, face));
    }
    Some(())
}

// ------------------------------------------------------------------------------------------------
// C16

pub fn face_area() -> f64 {
    poly_area2(&face_pentagon()).abs() / 2.0
}
pub fn k_const() -> f64 {
    4.0 * std::f64::consts::PI / (12.0 * face_area())
}

/// (sector 0..9, beyond the edge?) of a planar point, by the harness' own rule
fn sector(q: P2) -> (i32, bool) {
    let g = q[1].atan2(q[0]);
    let s = ((g / 36f64.to_radians()).floor() as i32).rem_euclid(10);
    let k = (g / 72f64.to_radians()).round();
    let off = g - k * 72f64.to_radians();
    let r = (q[0] * q[0] + q[1] * q[1]).sqrt();
    (s, r * off.cos() > D_EDGE)
}

/// (min barycentric coordinate of q in the triangle its sector/side designates, distance to that triangle's nearest corner)
/// - the harness' own construction of the 10 + 10 triangles
/// inside one of the 10 triangles of the face or of the 10 reflected triangles beyond its edges
pub fn in_projection_domain(q: P2) -> bool {
    // the 10 inner triangles tile the pentagon; beyond an edge the reflected triangle narrows towards its apex and the map is
    // only defined between its two slanted sides
    !sector(q).1 || tri_margin_beyond(q) > 1e-6
}

/// beyond the face edge: smaller of the barycentric weights of the edge's two end corners (edge midpoint, face vertex)
fn tri_margin_beyond(q: P2) -> f64 {
    let (s, _) = sector(q);
    let quint = ((s + 1) / 2) % 5;
    let amid = (72.0 * quint as f64).to_radians();
    let mid = [D_EDGE * amid.cos(), D_EDGE * amid.sin()];
    let acor = if s % 2 == 0 { (36.0 * (s + 1) as f64).to_radians() } else { (36.0 * s as f64).to_radians() };
    let cor = [R_VERTEX * acor.cos(), R_VERTEX * acor.sin()];
    let tri = [[2.0 * mid[0], 2.0 * mid[1]], mid, cor];
    let det = (tri[1][1] - tri[2][1]) * (tri[0][0] - tri[2][0]) + (tri[2][0] - tri[1][0]) * (tri[0][1] - tri[2][1]);
    let b0 = ((tri[1][1] - tri[2][1]) * (q[0] - tri[2][0]) + (tri[2][0] - tri[1][0]) * (q[1] - tri[2][1])) / det;
    let b1 = ((tri[2][1] - tri[0][1]) * (q[0] - tri[2][0]) + (tri[0][0] - tri[2][0]) * (q[1] - tri[2][1])) / det;
    b1.min(1.0 - b0 - b1)
}

fn tri_margin(q: P2) -> f64 {
    tri_margin_and_corner_distance(q).0
}

fn tri_margin_and_corner_distance(q: P2) -> (f64, f64) {
    let (s, beyond) = sector(q);
    let quint = ((s + 1) / 2) % 5;
    let amid = (72.0 * quint as f64).to_radians();
    let mid = [D_EDGE * amid.cos(), D_EDGE * amid.sin()];
    let acor = if s % 2 == 0 { (36.0 * (s + 1) as f64).to_radians() } else { (36.0 * s as f64).to_radians() };
    let cor = [R_VERTEX * acor.cos(), R_VERTEX * acor.sin()];
    let a = if beyond { [2.0 * mid[0], 2.0 * mid[1]] } else { [0.0, 0.0] };
    let tri = [a, mid, cor];
    // barycentric
    let det = (tri[1][1] - tri[2][1]) * (tri[0][0] - tri[2][0]) + (tri[2][0] - tri[1][0]) * (tri[0][1] - tri[2][1]);
    let b0 = ((tri[1][1] - tri[2][1]) * (q[0] - tri[2][0]) + (tri[2][0] - tri[1][0]) * (q[1] - tri[2][1])) / det;
    let b1 = ((tri[2][1] - tri[0][1]) * (q[0] - tri[2][0]) + (tri[0][0] - tri[2][0]) * (q[1] - tri[2][1])) / det;
    let corner = tri.iter().map(|c| ((q[0] - c[0]).powi(2) + (q[1] - c[1]).powi(2)).sqrt()).fold(f64::INFINITY, f64::min);
    (b0.min(b1).min(1.0 - b0 - b1), corner)
}

pub fn check_jacobian(run: &mut Run, q: P2, face: u8, class: &str) {
    // the stencil shrinks towards the corners of the projection's triangles (face centre, edge midpoints, face vertices), so
    // that locations as close as 1e-6 to them are measured too
    let (margin, corner) = tri_margin_and_corner_distance(q);
    if corner < 1e-6 {
        // below this the differences would be smaller than 1e4 x the absolute rounding noise of the projection itself (~3e-14)
        run.count("stencils.skipped_closer_than_1e-6_to_a_triangle_corner");
        return;
    }
    // distance to the face edge line (the map has a kink there: a stencil must stay on one side of it)
    let edge_dist = {
        let g = q[1].atan2(q[0]);
        let k = (g / 72f64.to_radians()).round();
        let off = g - k * 72f64.to_radians();
        ((q[0] * q[0] + q[1] * q[1]).sqrt() * off.cos() - D_EDGE).abs()
    };
    if edge_dist < 5e-8 {
        run.count("stencils.skipped_closer_than_5e-8_to_the_face_edge");
        return;
    }
    // h / corner <= 0.01: the map is conical at the corners, truncation ~ (h / r)^2
    let h = (0.01 * corner).min(0.25 * edge_dist).clamp(1e-8, 1e-6);
    if edge_dist < 1e-4 {
        run.count(if sector(q).1 { "stencils.within_1e-4_beyond_the_face_edge" } else { "stencils.within_1e-4_inside_the_face_edge" });
    }
    let pts = [[q[0] + h, q[1]], [q[0] - h, q[1]], [q[0], q[1] + h], [q[0], q[1] - h]];
    let s0 = sector(q);
    // all stencil points must lie in the same triangle: same sector, same side of the face edge, and (beyond the edge, where
    // the map degenerates outside the reflected triangle) safely inside that triangle
    // (the barycentric coordinate belonging to the edge itself may be arbitrarily small: the edge is part of the domain)
    let away_from_ends = |p: P2| -> bool {
        // beyond the edge the reflected triangle narrows towards its apex: stay 1e-3 (relative) inside its two slanted sides
        let g = p[1].atan2(p[0]);
        let k = (g / 72f64.to_radians()).round();
        let off = g - k * 72f64.to_radians();
        let r = (p[0] * p[0] + p[1] * p[1]).sqrt();
        let (xp, yp) = (r * off.cos(), r * off.sin());
        let ymax = 0.449_027_976_579_585_5 * (2.0 * D_EDGE - xp) / D_EDGE;
        yp.abs() < ymax * (1.0 - 2e-3) && xp < 2.0 * D_EDGE * (1.0 - 1e-3)
    };
    let outside = if s0.1 { margin <= 0.0 || !away_from_ends(q) || pts.iter().any(|p| tri_margin(*p) <= 0.0 || !away_from_ends(*p)) } else { margin <= 0.0 || pts.iter().any(|p| tri_margin(*p) <= 0.0) };
    if pts.iter().any(|p| sector(*p) != s0) || outside {
        run.count("stencils.skipped_straddling_seam_or_edge_or_outside_margin");
        return;
    }
    if corner < 1e-4 {
        run.count("stencils.within_1e-4_of_a_triangle_corner");
    }
    run.evaluations += 1;
    let case = || json!({"q": [hx(q[0]), hx(q[1])], "q_dec": q, "face": face, "class": class, "beyond_edge": s0.1});
    let s: Result<Vec<V3>, String> = pts.iter().map(|p| inv(*p, face)).collect();
    match s {
        Ok(s) => {
            let dx = scale(sub(s[0], s[1]), 1.0 / (2.0 * h));
            let dy = scale(sub(s[2], s[3]), 1.0 / (2.0 * h));
            let j = norm(cross(dx, dy));
            let rel = (j / k_const() - 1.0).abs();
            let key = if s0.1 { "jacobian_relative_error.beyond_edge" } else { "jacobian_relative_error.inside_face" };
            if run.margin(key, rel, 1e-4, case) {
                run.violation("C16.jacobian", case(), format!("local area scale {:.9} differs from 4 pi / (12 face areas) = {:.9} by {:.3e} (relative) at {:?} on face {face}", j, k_const(), rel, q));
            }
            // anomaly -> zoom: far from the triangle corners the measurement is exact to ~1e-9 + (h / corner)^2; a value well above
            // that (but still inside the 1e-4 tolerance) betrays a tiny discontinuity under the stencil - a region as small as
            // a resolution-29 cell straddling it would have the wrong area. Locate it and measure at that scale.
            let expected = 1e-9 + 2.0 * (h / corner).powi(2);
            if rel > 30.0 * expected && rel <= 1e-4 && corner > 1e-3 && edge_dist > 1e-4 {
                run.count("anomalies.zoomed");
                zoom(run, q, face, h, class);
            }
            run.count(if s0.1 { "stencils.beyond_edge" } else { "stencils.inside_face" });
            run.count(&format!("sector.{}", s0.0));
            run.nontrivial(mix(mix(q[0].to_bits(), q[1].to_bits()), face as u64));
            if run.wants_sample(class) {
                run.sample(class, || json!({"q": q, "face": face, "beyond_edge": s0.1, "jacobian": j, "expected": k_const()}));
            }
        }
        Err(e) => run.violation("C16.ok", case(), format!("inverse failed: {e}")),
    }
}

fn jac_rel(q: P2, face: u8, w: f64) -> Option<f64> {
    let pts = [[q[0] + w, q[1]], [q[0] - w, q[1]], [q[0], q[1] + w], [q[0], q[1] - w]];
    let s: Vec<V3> = pts.iter().map(|p| inv(*p, face).ok()).collect::<Option<Vec<V3>>>()?;
    let dx = scale(sub(s[0], s[1]), 1.0 / (2.0 * w));
    let dy = scale(sub(s[2], s[3]), 1.0 / (2.0 * w));
    Some((norm(cross(dx, dy)) / k_const() - 1.0).abs())
}

/// localise a discontinuity of the inverse projection inside the stencil [q - h, q + h] along either axis by repeatedly
/// splitting the interval in 8 and following the sub-interval whose secant slope stands out (the smooth part of the slope
/// differences shrinks with the width, a jump's contribution grows with 1 / width), then measure the Jacobian with a
/// resolution-29-sized stencil (1e-9) straddling the located point, and at a control point six steps away
fn zoom(run: &mut Run, q: P2, face: u8, h: f64, class: &str) {
    for axis in 0..2 {
        let at = |t: f64| -> P2 {
            if axis == 0 {
                [q[0] + t, q[1]]
            } else {
                [q[0], q[1] + t]
            }
        };
        let (mut a, mut b) = (-h, h);
        let mut localised = true;
        while b - a > 4e-9 {
            let n = 8;
            let dt = (b - a) / n as f64;
            let f: Option<Vec<V3>> = (0..=n).map(|i| inv(at(a + dt * i as f64), face).ok()).collect();
            let Some(f) = f else {
                localised = false;
                break;
            };
            let slopes: Vec<V3> = (0..n).map(|i| scale(sub(f[i + 1], f[i]), 1.0 / dt)).collect();
            let mean = scale(slopes.iter().fold([0.0; 3], |m, v| add(m, *v)), 1.0 / n as f64);
            let dev: Vec<f64> = slopes.iter().map(|v| norm(sub(*v, mean))).collect();
            let (imax, dmax) = dev.iter().enumerate().fold((0, 0.0), |m, (i, d)| if *d > m.1 { (i, *d) } else { m });
            let mut others: Vec<f64> = dev.iter().enumerate().filter(|(i, _)| *i != imax).map(|(_, d)| *d).collect();
            others.sort_by(|x, y| x.partial_cmp(y).unwrap());
            let typical = others[others.len() / 2].max(1e-16 / dt);
            if dmax < 4.0 * typical {
                localised = false;
                break;
            }
            a += dt * imax as f64;
            b = a + dt;
        }
        if !localised {
            continue;
        }
        run.count("anomalies.localised");
        let w = 1e-9;
        let c = at(0.5 * (a + b));
        let ctrl = at(0.5 * (a + b) + 6.0 * w);
        let (Some(fine), Some(control)) = (jac_rel(c, face, w), jac_rel(ctrl, face, w)) else { continue };
        run.evaluations += 1;
        let case = || json!({"q": [hx(c[0]), hx(c[1])], "q_dec": c, "face": face, "class": class, "stencil": w, "axis": axis});
        run.margin("fine_scale_jacobian_relative_error_at_located_anomalies", fine, 1e-4, case);
        if fine > 1e-4 && control < 2e-5 {
            run.violation(
                "C16.discontinuity",
                case(),
                format!(
                    "the inverse projection jumps at {:?} on face {face}: a region of diameter 2e-9 (a resolution-29 cell) straddling it has its area off by {:.3e} (relative); six steps to the side the same measurement gives {:.3e}",
                    c, fine, control
                ),
            );
        }
    }
}

/// a planar triangle of circumradius `size` centred at a located jump: its image must have (roughly) the area the constant
/// scale dictates. At sizes down to 1e-11 the projection's rounding noise (~3e-14) allows no more than a coarse statement:
/// an image area off by more than 30 % is a collapsed or torn region.
pub fn check_collapse(run: &mut Run, q: P2, face: u8, size: f64, rot: f64) {
    if size < 1e-11 {
        run.count("collapse_probes.skipped_below_the_noise_floor");
        return;
    }
    let tri: Vec<P2> = (0..3).map(|k| [q[0] + size * (rot + 2.094_395_102_393_195_5 * k as f64).cos(), q[1] + size * (rot + 2.094_395_102_393_195_5 * k as f64).sin()]).collect();
    let s0 = sector(q);
    if tri.iter().any(|p| sector(*p) != s0 || !in_projection_domain(*p)) {
        run.count("collapse_probes.skipped_straddling_seam_or_edge");
        return;
    }
    let img: Option<Vec<V3>> = tri.iter().map(|p| inv(*p, face).ok()).collect();
    let Some(img) = img else { return };
    run.evaluations += 1;
    run.count("collapse_probes.measured");
    let planar = poly_area2(&tri).abs() / 2.0;
    let c = normalize(add(add(img[0], img[1]), img[2]));
    let sph = sph_area_small(&img, c).abs();
    let rel = (sph / (planar * k_const()) - 1.0).abs();
    let case = || json!({"q": [hx(q[0]), hx(q[1])], "q_dec": q, "face": face, "size": size, "rot": rot, "class": "collapse_probe"});
    if run.margin("collapse_probe_relative_area_error", rel, 0.3, case) {
        run.violation(
            "C16.collapse",
            case(),
            format!("a planar triangle of size {:.2e} at {:?} on face {face} (a located discontinuity of the inverse projection) has an image area off by {:.3e} (relative): a collapsed or torn region", size, q, rel),
        );
    }
}

pub fn check_small_triangle(run: &mut Run, q: P2, face: u8, size: f64, rot: f64) {
    check_small_triangle_with(run, q, face, size, rot, 5e-4)
}

/// `min_margin`: how far (in barycentric units) every vertex must stay inside the projection triangle it lies in; close to a
/// corner of that triangle only a margin proportional to the distance from the corner is possible
pub fn check_small_triangle_with(run: &mut Run, q: P2, face: u8, size: f64, rot: f64, min_margin: f64) {
    let tri: Vec<P2> = (0..3).map(|k| [q[0] + size * (rot + 2.094_395_102_393_195_5 * k as f64).cos(), q[1] + size * (rot + 2.094_395_102_393_195_5 * k as f64).sin()]).collect();
    let s0 = sector(q);
    if tri.iter().any(|p| sector(*p) != s0 || tri_margin(*p) < min_margin) {
        run.count("triangles.skipped_straddling_seam_or_edge");
        return;
    }
    run.evaluations += 1;
    let case = || json!({"q": [hx(q[0]), hx(q[1])], "q_dec": q, "face": face, "size": size, "rot": rot, "class": "small_triangle"});
    // the image of a straight planar edge is a curve: refine the subdivision until the measured area has converged
    // (the edges bend strongly near the apex of the projection's triangles, i.e. the face centre)
    let measure = |m: usize| -> Result<f64, String> {
        let mut ring: Vec<V3> = Vec::with_capacity(3 * m);
        for e in 0..3 {
            let (a, b) = (tri[e], tri[(e + 1) % 3]);
            for j in 0..m {
                let t = j as f64 / m as f64;
                ring.push(inv([a[0] + t * (b[0] - a[0]), a[1] + t * (b[1] - a[1])], face)?);
            }
        }
        let c = centroid_dir(&ring);
        Ok(sph_area_small(&ring, c).abs())
    };
    let mut m = 8;
    let mut area = match measure(m) {
        Ok(a) => a,
        Err(e) => {
            run.violation("C16.ok", case(), format!("inverse failed: {e}"));
            return;
        }
    };
    loop {
        m *= 2;
        let finer = match measure(m) {
            Ok(a) => a,
            Err(e) => {
                run.violation("C16.ok", case(), format!("inverse failed: {e}"));
                return;
            }
        };
        // (a region that collapses to area 0 at every subdivision has converged, to the wrong value)
        let change = if area == 0.0 && finer == 0.0 { 0.0 } else { (finer / area - 1.0).abs() };
        area = finer;
        if change < 4e-6 {
            break;
        }
        if m >= 1024 {
            // no convergence: skipped when the last estimate is at least in the right region (within 10 %); an image that
            // keeps changing AND is nowhere near the right area is a collapsed or torn region
            let planar = poly_area2(&tri).abs() / 2.0;
            let off = (area / (planar * k_const()) - 1.0).abs();
            if off > 0.1 || !off.is_finite() {
                run.evaluations += 0;
                run.violation("C16.triangle", case(), format!("image of a small planar triangle (area {:.6e}) does not settle under refinement and its spherical area {:.6e} is off by {:.3e}: a collapsed or torn region", planar, area, off));
            } else {
                run.count("triangles.measurement_not_converged_skipped");
            }
            return;
        }
    }
    run.count(&format!("triangles.converged_at_{m}_points_per_edge"));
    let planar = poly_area2(&tri).abs() / 2.0;
    let rel = (area / (planar * k_const()) - 1.0).abs();
    if run.margin("small_triangle_relative_area_error", rel, 1e-4, case) {
        run.violation("C16.triangle", case(), format!("image of a small planar triangle (area {:.6e}) has spherical area {:.6e}: ratio differs from the constant by {:.3e}", planar, area, rel));
    }
    run.count("triangles.measured");
    run.nontrivial(mix(mix(q[0].to_bits(), q[1].to_bits()), mix(face as u64, size.to_bits())));
}

fn margin_point(rng: &mut Rng) -> (P2, &'static str) {
    // a point in the face or in the reflected margin beyond an edge, log-concentrated at hostile places
    let quint = rng.below(5) as f64;
    let amid = (72.0 * quint).to_radians();
    match rng.below(8) {
        0 => (pentagon_point(rng.range(0.0, std::f64::consts::TAU), rng.f().sqrt() * 0.999), "jacobian.face_uniform"),
        1 => (pentagon_point(rng.range(0.0, std::f64::consts::TAU), rng.log10(0.0, 6.5)), "jacobian.near_centre"),
        5 => {
            // next to a face vertex or an edge midpoint, from inside the face
            let k = rng.below(5) as f64;
            let corner = if rng.chance(0.5) { pentagon_point((36.0 + 72.0 * k).to_radians(), 1.0) } else { pentagon_point((72.0 * k).to_radians(), 1.0) };
            let eps = rng.log10(1.0, 6.5);
            let t = rng.range(0.0, std::f64::consts::TAU);
            ([corner[0] + eps * t.cos(), corner[1] + eps * t.sin()], "jacobian.near_vertex_or_edge_midpoint")
        }
        2 => {
            let az = (36.0 * rng.below(10) as f64).to_radians() + rng.log10(1.0, 5.0) * rng.sign();
            (pentagon_point(az, rng.range(0.02, 0.99)), "jacobian.near_seam")
        }
        3 => {
            let az = amid + rng.range(-0.6, 0.6);
            (pentagon_point(az, 1.0 - rng.log10(0.5, 7.2)), "jacobian.near_edge_inside")
        }
        _ => {
            // beyond the edge: x' in (D_EDGE, 2 D_EDGE), inside the reflected triangle; log-concentrated right behind the edge
            let depth = if rng.chance(0.6) { rng.log10(0.3, 7.2) } else { rng.range(0.0, 1.0) };
            let xp = D_EDGE * (1.0 + depth.min(0.98));
            let ymax = 0.449_027_976_579_585_5 * (2.0 * D_EDGE - xp) / D_EDGE;
            let yp = rng.range(-1.0, 1.0) * ymax * 0.98;
            ([xp * amid.cos() - yp * amid.sin(), xp * amid.sin() + yp * amid.cos()], "jacobian.beyond_edge")
        }
    }
}

fn cell_reach(run: &mut Run, rng: &mut Rng, fr: &Frame) {
    let class = *rng.pick(&["seam", "dvertex", "dvertex", "edgemid"]);
    let (lon, lat) = gen::point(rng, fr, class);
    let res = match rng.below(4) {
        0 => 2 + rng.below(4) as i32,
        _ => 2 + rng.below(28) as i32,
    };
    let Ok(id) = lookup(lon, lat, res) else { return };
    let shape = flatten(guard(|| {
        let cell = a5::core::serialization::deserialize(id)?;
        let pent = a5::core::cell::get_pentagon(&cell)?;
        Ok::<_, String>((cell.origin_id, pent.split_edges(4).get_vertices_vec().clone()))
    }));
    let Ok((face, outline)) = shape else { return };
    run.count("cell_reach.cells");
    let mut any_beyond = false;
    for v in &outline {
        let q = [v.x(), v.y()];
        let (_, beyond) = sector(q);
        if beyond {
            any_beyond = true;
            run.count("cell_reach.outline_points_beyond_the_edge");
            let m = tri_margin_beyond(q);
            if m < -1e-9 {
                // beyond the edge and outside the reflected triangle: the monitor's assumed domain would be too small
                run.count("cell_reach.outline_points_outside_the_reflected_triangle");
                let r = (q[0] * q[0] + q[1] * q[1]).sqrt();
                run.margin("cell_reach.depth_outside_the_reflected_triangle_rel", -m, f64::INFINITY, || json!({"q": q, "face": face, "id": hu(id), "rho": r}));
                if run.wants_sample("cell_reach.outside") {
                    run.sample("cell_reach.outside", || json!({"q": q, "face": face, "id": hu(id), "res": res, "barycentric_margin": m}));
                }
            }
        }
        check_jacobian(run, q, face, "cell_reach");
    }
    if any_beyond {
        run.count("cell_reach.cells_straddling_a_face_edge");
    }
}

fn run_c16(ctx: &Ctx) -> Run {
    silence_panics();
    let threads = ctx.threads;
    let mut out = parallel(threads, |w, run| {
        let mut rng = ctx.rng("C16", w);
        let fr = Frame::new();
        let n = ctx.n(6_000_000, 300_000_000) / threads as u64;
        for i in 0..n {
            let (q, class) = margin_point(&mut rng);
            let face = rng.below(12) as u8;
            let (q, face, class) = match crate::loci::substitute_plane(&mut rng) {
                Some((q, face)) => (q, face, "located_discontinuity"),
                None => (q, face, class),
            };
            check_jacobian(run, q, face, class);
            if class == "located_discontinuity" {
                // a located jump may sit closer to a triangle corner than any stencil can go: measure a triangle a few jump
                // widths across that straddles it, against the only thing measurable at that scale - collapse or tearing
                if let Some((lq, lface, jump)) = crate::loci::pick_inverse_locus(&mut rng) {
                    check_collapse(run, lq, lface, jump * rng.range(1.0, 6.0), rng.range(0.0, 2.1));
                }
            }
            if i % 4 == 0 {
                let size = rng.log10(2.5, 5.0);
                check_small_triangle(run, q, face, size, rng.range(0.0, 2.1));
            }
            if i % 16 == 3 {
                // observed reach: the planar outline of a real cell that lies at a face edge or vertex (found by a lookup there),
                // taken from the library's own `get_pentagon`. Every outline point is a point the inverse projection is really
                // asked for, so it belongs to "the margin that cells reach into" whatever this monitor assumes about that margin:
                // points beyond the edge AND outside the reflected triangle are counted (none may exist if the assumed domain is
                // right), and the Jacobian is measured at all the others.
                cell_reach(run, &mut rng, &fr);
            }
            if i % 8 == 1 {
                // closer to the corners of the projection's triangles than a difference stencil can go: a small triangle at
                // distance d = 1e-8 .. 1e-5 from a face centre, an edge midpoint or a face vertex, of size d / 5
                let k = rng.below(5) as f64;
                let corner = match rng.below(3) {
                    0 => [0.0, 0.0],
                    1 => pentagon_point((72.0 * k).to_radians(), 1.0),
                    _ => pentagon_point((36.0 + 72.0 * k).to_radians(), 1.0),
                };
                let d = rng.log10(5.0, 8.0);
                let t = rng.range(0.0, std::f64::consts::TAU);
                let c = [corner[0] + d * t.cos(), corner[1] + d * t.sin()];
                run.count("triangles.near_corner_attempts");
                check_small_triangle_with(run, c, face, 0.2 * d, rng.range(0.0, 2.1), 0.05 * d);
            }
        }
    });
    for s in 0..10 {
        if out.counters.get(&format!("sector.{s}")).copied().unwrap_or(0) == 0 {
            out.inconclusive(format!("sector {s} was not exercised"));
        }
    }
    if out.counters.get("stencils.beyond_edge").copied().unwrap_or(0) == 0 {
        out.inconclusive("no stencil beyond a face edge was accepted".to_string());
    }
    out
}

fn replay_c16(check: &str, case: &Value, run: &mut Run) -> Option<()> {
    if !check.starts_with("C16.") {
        return None;
    }
    let q = case.get("q")?.as_array()?;
    let q = [parse_f(&q[0])?, parse_f(&q[1])?];
    let face = case["face"].as_u64()? as u8;
    if check == "C16.collapse" {
        check_collapse(run, q, face, case["size"].as_f64()?, case["rot"].as_f64().unwrap_or(0.0));
    } else if let Some(size) = case.get("size").and_then(|s| s.as_f64()) {
        check_small_triangle(run, q, face, size, case["rot"].as_f64().unwrap_or(0.0));
    } else if let Some(w) = case.get("stencil").and_then(|s| s.as_f64()) {
        let axis = case["axis"].as_u64().unwrap_or(0);
        let ctrl = if axis == 0 { [q[0] + 6.0 * w, q[1]] } else { [q[0], q[1] + 6.0 * w] };
        let (fine, control) = (jac_rel(q, face, w), jac_rel(ctrl, face, w));
        println!("replay: fine-scale (stencil {w:e}) Jacobian error at the recorded point {:?}, at the control point {:?}", fine, control);
        run.evaluations += 1;
        if let (Some(f), Some(c)) = (fine, control) {
            if f > 1e-4 && c < 2e-5 {
                run.violation("C16.discontinuity", case.clone(), format!("area of a 2e-9 region straddling the recorded point is off by {f:.3e}"));
            }
        }
    } else {
        check_jacobian(run, q, face, "replay");
    }
    println!("replay: margins {:?}", run.margins.iter().map(|(k, v)| (k.clone(), v.0)).collect::<Vec<_>>());
    Some(())
}
