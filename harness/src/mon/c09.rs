//! C09 — uncompact returns exactly the descendants at the target resolution (DESIGN §6 C09)
use crate::gen;
use crate::model::*;
use crate::mon::Monitor;
use crate::orc::*;
use crate::report::*;
use crate::rng::{mix, Rng};
use crate::Ctx;
use serde_json::{json, Value};

pub const MONITOR: Monitor = Monitor {
    id: "C09",
    rule: "one evaluation = one uncompact(list, target) call judged against the tree model: Err and no output iff some input is finer \
           than the target, otherwise the output is, input by input and in input order, exactly the model's descendants (as a set per \
           input, distinct, right resolution, right ancestor, total length = sum of fan-outs); non-trivial = distinct (list, target) \
           with at least one input strictly coarser than the target or an expected error",
    run,
    replay,
};

pub fn check_uncompact(run: &mut Run, list: &[MCell], target: i32) {
    run.evaluations += 1;
    let ids: Vec<u64> = list.iter().map(|c| encode(*c)).collect();
    let case = || json!({"ids": ids_json(&ids), "target": target, "n": ids.len()});
    let must_fail = list.iter().any(|c| c.res > target);
    let got = uncompact(&ids, target);
    let mut h = target as u64;
    for i in &ids {
        h = mix(h, *i);
    }
    if must_fail || list.iter().any(|c| c.res < target) {
        run.nontrivial(h);
    }
    match (got, must_fail) {
        (Err(_), true) => run.count("expected_error"),
        (Ok(v), true) => run.violation("C09.error", case(), format!("an input is finer than the target but uncompact returned {} cells", v.len())),
        (Err(e), false) => run.violation("C09.ok", case(), format!("uncompact failed although no input is finer than the target: {e}")),
        (Ok(v), false) => {
            let total: u128 = list.iter().map(|c| fanout(c.res, target)).sum();
            if v.len() as u128 != total {
                run.violation("C09.length", case(), format!("{} cells returned, the hierarchy fan-outs sum to {total}", v.len()));
                return;
            }
            let mut off = 0usize;
            for c in list {
                let n = fanout(c.res, target) as usize;
                let mut part: Vec<u64> = v[off..off + n].to_vec();
                off += n;
                part.sort_unstable();
                let mut want: Vec<u64> = children_at(*c, target).into_iter().map(encode).collect();
                want.sort_unstable();
                if part != want {
                    let bad = part.iter().find(|x| want.binary_search(x).is_err()).copied();
                    run.violation(
                        "C09.descendants",
                        case(),
                        format!("the block of input {} is not exactly its descendants at {target} (first unexpected: {:?})", hu(encode(*c)), bad.map(hu)),
                    );
                    return;
                }
            }
            // the same list with some cells written in an accepted non-canonical spelling (one stray bit below the marker): the
            // library reads such a word as the same cell, so - where it answers at all - it must return the same descendants
            if h % 6 == 0 {
                let mut arng = Rng::stream(h, "C09.alias", 0);
                let mut ids2 = ids.clone();
                let mut changed = 0;
                for (k, c) in list.iter().enumerate() {
                    if arng.chance(0.5) {
                        if let Some(w) = stray_alias(&mut arng, *c) {
                            ids2[k] = w;
                            changed += 1;
                        }
                    }
                }
                if changed > 0 {
                    run.count("alias_spellings.lists");
                    let answer = uncompact(&ids2, target);
                    if answer.is_err() && ids2.iter().all(|w| children(*w, Some(target)).is_ok()) {
                        // rejecting a spelling is allowed, but not here: every element is accepted by cell_to_children for
                        // this very target, which is what uncompact is defined through
                        run.violation(
                            "C09.alias_rejected",
                            json!({"ids": ids_json(&ids2), "canonical_ids": ids_json(&ids), "target": target}),
                            format!("uncompact fails ({:?}) on a list every element of which cell_to_children expands to {target}; {changed} elements are written in a non-canonical spelling", answer.as_ref().err()),
                        );
                        return;
                    }
                    if let Ok(v2) = answer {
                        run.count("alias_spellings.answered");
                        if v2 != v {
                            let at = v2.iter().zip(v.iter()).position(|(a, b)| a != b);
                            run.violation(
                                "C09.alias_spelling",
                                json!({"ids": ids_json(&ids2), "canonical_ids": ids_json(&ids), "target": target}),
                                format!("uncompact accepts non-canonical spellings of {changed} of the cells but returns other cells than for the canonical ids (first difference at output {:?}, lengths {} / {})", at, v2.len(), v.len()),
                            );
                            return;
                        }
                    }
                }
            }
            run.countn("cells_returned", v.len() as u64);
            if list.len() >= 2 && v.len() > list.len() && run.wants_sample("uncompact") {
                run.sample("uncompact", || json!({"ids": ids_json(&ids), "target": target, "returned": v.len()}));
            }
        }
    }
}

fn random_list(rng: &mut Rng) -> (Vec<MCell>, i32) {
    let target = match rng.below(8) {
        0 => -1,
        1 => 0,
        2 => 1,
        3 => 29,
        _ => rng.below(30) as i32,
    };
    let cap = match rng.below(4) {
        0 => 3,
        1 => 50,
        _ => 12,
    };
    let n = 1 + rng.below(cap) as usize;
    let mut list = Vec::new();
    let mut budget: u128 = 1 << 16;
    let want_error = rng.chance(0.12);
    for _ in 0..n {
        let res = if want_error && rng.chance(0.3) && target < MAX_RES {
            target + 1 + rng.below((MAX_RES - target) as u64) as i32
        } else {
            let depth = rng.below(9) as i32;
            (target - depth).max(-1)
        };
        let c = gen::random_cell(rng, res);
        let f = fanout(c.res, target);
        if f > budget {
            list.push(gen::random_cell(rng, target));
        } else {
            budget -= f;
            list.push(c);
        }
    }
    if rng.chance(0.1) && !list.is_empty() {
        let d = list[rng.usize(list.len())];
        list.push(d); // duplicates are expanded twice, in place
    }
    if rng.chance(0.2) {
        // family runs: the children of one cell next to each other - in order, permuted, with one repeated in place of another,
        // all the same one, or with a stranger in the run - the shapes a "whole sibling group" shortcut would mistake for a group
        for _ in 0..1 + rng.below(3) {
            let res = (target - rng.below(4) as i32).max(0);
            let kids = children_at(gen::random_cell(rng, res - 1), res);
            let k = kids.len();
            let mut fam: Vec<MCell> = match rng.below(6) {
                0 => kids.clone(),
                1 => {
                    let mut f = kids.clone();
                    let (a, b) = (1 + rng.usize(k - 1), 1 + rng.usize(k - 1));
                    f.swap(a, b);
                    f
                }
                2 => {
                    let mut f = kids.clone();
                    let (a, b) = (rng.usize(k), rng.usize(k));
                    f[a] = f[b];
                    f
                }
                3 => vec![kids[rng.usize(k)]; k],
                4 => {
                    let mut f = kids.clone();
                    f[1 + rng.usize(k - 1)] = gen::random_cell(rng, res);
                    f
                }
                _ => {
                    let mut f = kids.clone();
                    for i in (1..k).rev() {
                        f.swap(i, rng.usize(i + 1));
                    }
                    f
                }
            };
            let f: u128 = fam.iter().map(|c| fanout(c.res, target)).sum();
            if f > budget {
                continue;
            }
            budget -= f;
            let at = rng.usize(list.len() + 1);
            let tail = list.split_off(at);
            list.append(&mut fam);
            list.extend(tail);
        }
    }
    (list, target)
}

fn run(ctx: &Ctx) -> Run {
    silence_panics();
    let threads = ctx.threads;
    parallel(threads, |w, run| {
        let mut rng = ctx.rng("C09", w);
        if w == 0 {
            // deterministic corpus: world and base cells to every shallow target, empty list, errors
            check_uncompact(run, &[], 5);
            for t in -1..=5 {
                check_uncompact(run, &[WORLD], t);
            }
            for f in 0..12u8 {
                for t in -1..=6 {
                    check_uncompact(run, &[MCell::new(0, f, 0, 0)], t);
                    check_uncompact(run, &[MCell::new(1, f, (f % 5) as u8, 0), MCell::new(0, (f + 1) % 12, 0, 0)], t);
                }
            }
            check_uncompact(run, &[WORLD, WORLD], 1);
        }
        let n = ctx.n(400_000, 10_000_000) / threads as u64;
        for _ in 0..n {
            // error paths must leave nothing behind: now and then a few rejected calls precede the judged ones
            if rng.below(64) == 0 {
                crate::orc::failed_call_history(&mut rng);
            }
            let (list, target) = if rng.below(40) == 0 {
                // a long list of same-resolution cells (length on a power-of-two boundary, or large) expanded by 0, 1 or 2 levels
                let set = gen::cell_set(&mut rng, "sized");
                let r = set.first().map(|c| c.res).unwrap_or(1);
                let up = if set.len() > 5000 { rng.below(2) as i32 } else { rng.below(3) as i32 };
                let mut set = set;
                if set.len() >= 64 && r >= 2 && rng.chance(0.5) {
                    // a long list is rarely of one resolution: a few coarser cells among the run, so that position-keyed scratch
                    // (a resolution table reused modulo a block size, a chunk that assumes one fan-out) meets two fan-outs
                    for _ in 0..1 + rng.below(3) {
                        let k = rng.usize(set.len());
                        let coarser = r - 1 - rng.below(2) as i32;
                        set[k] = gen::random_cell(&mut rng, coarser);
                    }
                    run.count("long_lists_with_coarser_cells_mixed_in");
                }
                (set, (r + up).min(MAX_RES))
            } else if rng.below(40) == 1 {
                // neighbours in id order that are far apart in the tree (ends of quintants and faces)
                let set = gen::cell_set(&mut rng, "ends");
                let r = set.first().map(|c| c.res).unwrap_or(2);
                (set, (r + rng.below(3) as i32).min(MAX_RES))
            } else {
                random_list(&mut rng)
            };
            run.count(&format!("input_len.{}", gen::len_bucket(list.len())));
            run.count(&format!("target.{:+03}", target));
            check_uncompact(run, &list, target);
        }
    })
}

fn replay(check: &str, case: &Value, run: &mut Run) -> Option<()> {
    if !check.starts_with("C09.") {
        return None;
    }
    let ids = parse_ids(case.get("ids")?)?;
    let target = case["target"].as_i64()? as i32;
    let list: Vec<MCell> = ids.iter().filter_map(|i| decode(*i)).collect();
    check_uncompact(run, &list, target);
    println!("replay: uncompact({} ids, {target}) -> {:?}", ids.len(), uncompact(&ids, target).map(|v| v.len()));
    Some(())
}
