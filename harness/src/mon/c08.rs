//! C08 — compaction never changes the covered set; C10 — compaction is maximal, idempotent and canonical (DESIGN §6)
use crate::gen;
use crate::model::*;
use crate::mon::Monitor;
use crate::orc::*;
use crate::report::*;
use crate::rng::{mix, Rng};
use crate::Ctx;
use serde_json::{json, Value};
use std::collections::BTreeSet;

pub const MONITOR_C08: Monitor = Monitor {
    id: "C08",
    rule: "one evaluation = one compact(S) call (S presented permuted and with duplicated elements) judged against the interval model \
           of the covered leaf set at R = finest input resolution (+0..2): same coverage, no duplicate in the output, output independent \
           of order and multiplicity; where the fan-out is <= 4^8 the library's own uncompact of input and output are compared as sets \
           too; non-trivial = distinct sets with >= 2 cells and >= 2 resolutions or a complete sibling group",
    run: run_c08,
    replay,
};

pub const MONITOR_C10: Monitor = Monitor {
    id: "C10",
    rule: "one evaluation = one non-overlapping cell set S: compact(S) must equal the set-semantics model (unique maximal antichain), \
           contain no complete 12/5/4 sibling group, be a fixed point of compact, and equal compact(S') for a different antichain S' \
           covering the same region (some cells of S replaced by all their children); non-trivial = distinct sets in which at least one \
           merge happens",
    run: run_c10,
    replay,
};

fn set_hash(ids: &[u64]) -> u64 {
    let mut s: Vec<u64> = ids.to_vec();
    s.sort_unstable();
    s.dedup();
    s.iter().fold(17, |h, i| mix(h, *i))
}

/// one presentation of a set: shuffled (mostly), or already in hierarchical / numeric / reverse order; with duplicated
/// elements, which in the ordered presentations sit next to their originals
fn present(rng: &mut Rng, set: &[MCell]) -> Vec<u64> {
    let mut cells: Vec<MCell> = set.to_vec();
    let n = cells.len();
    if n > 0 {
        for _ in 0..rng.below(1 + (n as u64) / 3) {
            let d = cells[rng.usize(n)];
            cells.push(d);
        }
    }
    match rng.below(10) {
        0 | 1 => {
            // hierarchical order: by (position interval at the finest resolution, resolution) = ancestors before descendants
            let r = cells.iter().map(|c| c.res).max().unwrap_or(1).max(1);
            cells.sort_by_key(|c| (leaf_interval(*c, r).0, c.res));
            cells.iter().map(|c| encode(*c)).collect()
        }
        2 => {
            let mut ids: Vec<u64> = cells.iter().map(|c| encode(*c)).collect();
            ids.sort_unstable();
            ids
        }
        3 => {
            let mut ids: Vec<u64> = cells.iter().map(|c| encode(*c)).collect();
            ids.sort_unstable();
            ids.reverse();
            ids
        }
        _ => {
            let mut ids: Vec<u64> = cells.iter().map(|c| encode(*c)).collect();
            rng.shuffle(&mut ids);
            ids
        }
    }
}

/// C08 oracle on one presentation of a set
pub fn check_cover(run: &mut Run, set: &[MCell], ids: &[u64], ids2: &[u64], flavour: &str) -> Option<Vec<u64>> {
    run.evaluations += 1;
    let case = || json!({"ids": ids_json(ids), "ids_permuted": ids_json(ids2), "flavour": flavour, "n": ids.len()});
    let out = match compact(ids) {
        Ok(v) => v,
        Err(e) => {
            run.violation("C08.ok", case(), format!("compact failed on valid cells: {e}"));
            return None;
        }
    };
    let cells = match decode_all(&out) {
        Ok(c) => c,
        Err(bad) => {
            run.violation("C08.canonical", case(), format!("compact returned {} which is not a canonical id", hu(bad)));
            return None;
        }
    };
    let mut sorted = out.clone();
    sorted.sort_unstable();
    if sorted.windows(2).any(|w| w[0] == w[1]) {
        run.violation("C08.duplicates", case(), format!("compact output contains a duplicate ({} cells)", out.len()));
    }
    let r = set.iter().map(|c| c.res).max().unwrap_or(1).max(1);
    if let Some(fine) = cells.iter().find(|c| c.res > r) {
        run.violation("C08.coverage", case(), format!("the result contains {} of resolution {}, finer than every input (finest input resolution {r})", hu(encode(*fine)), fine.res));
        return Some(out);
    }
    let r = (r + (ids.len() % 3) as i32).min(MAX_RES);
    let want = coverage(set, r);
    let got = coverage(&cells, r);
    if want != got {
        run.violation(
            "C08.coverage",
            case(),
            format!("expanding the result to resolution {r} covers {} leaf intervals ({:?}..), the input covers {} ({:?}..)", got.len(), got.first(), want.len(), want.first()),
        );
    }
    // the library's own expansion, where small enough
    let total: u128 = set.iter().map(|c| fanout(c.res, r)).sum::<u128>() + cells.iter().map(|c| fanout(c.res, r)).sum::<u128>();
    if total <= 1 << 17 && cells.iter().all(|c| c.res <= r) {
        if let (Ok(a), Ok(b)) = (uncompact(ids, r), uncompact(&out, r)) {
            let a: BTreeSet<u64> = a.into_iter().collect();
            let b: BTreeSet<u64> = b.into_iter().collect();
            run.count("cover.checked_with_library_uncompact");
            if a != b {
                run.violation("C08.coverage_uncompact", case(), format!("uncompact(input, {r}) has {} distinct cells, uncompact(compact(input), {r}) has {}", a.len(), b.len()));
            }
        }
    }
    // order / multiplicity independence
    match compact(ids2) {
        Ok(o2) => {
            if o2 != out {
                let mut s2 = o2.clone();
                s2.sort_unstable();
                if s2 == sorted {
                    // same set, different sequence: the property is about the set; recorded, not judged
                    run.count("order.same_set_in_a_different_sequence");
                } else {
                    run.violation("C08.order", case(), format!("a permutation / different multiplicity of the same set compacts to a different set ({} vs {} cells)", o2.len(), out.len()));
                }
            }
        }
        Err(e) => run.violation("C08.ok", case(), format!("compact failed on a permutation: {e}")),
    }
    let distinct_res: BTreeSet<i32> = set.iter().map(|c| c.res).collect();
    if set.len() >= 2 && (distinct_res.len() >= 2 || out.len() < set_len_distinct(set)) {
        run.nontrivial(set_hash(ids));
        if ids.len() <= 40 && out.len() < set.len() && run.wants_sample(flavour) {
            run.sample(flavour, || json!({"input": ids_json(ids), "compact": ids_json(&out), "coverage_resolution": r}));
        }
    }
    Some(out)
}

fn set_len_distinct(set: &[MCell]) -> usize {
    set.iter().collect::<BTreeSet<_>>().len()
}

/// C10 oracle on a non-overlapping set
pub fn check_canonical(run: &mut Run, rng: &mut Rng, set: &[MCell], flavour: &str) {
    run.evaluations += 1;
    let ids: Vec<u64> = present(rng, set);
    let case = || json!({"ids": ids_json(&ids), "flavour": flavour, "n": ids.len()});
    if !is_antichain(set) {
        // C10 quantifies over non-overlapping sets only; a generator slip must not turn into an alarm
        run.count("skipped.generated_set_overlaps");
        return;
    }
    let out = match compact(&ids) {
        Ok(v) => v,
        Err(e) => {
            run.violation("C10.ok", case(), format!("compact failed on valid cells: {e}"));
            return;
        }
    };
    let cells = match decode_all(&out) {
        Ok(c) => c,
        Err(bad) => {
            run.violation("C10.canonical_ids", case(), format!("compact returned {} which is not a canonical id", hu(bad)));
            return;
        }
    };
    let model = compact_model(set);
    let got: BTreeSet<MCell> = cells.iter().copied().collect();
    if let Some(p) = find_complete_group(&cells) {
        run.violation("C10.maximal", case(), format!("result still contains the complete sibling group of {} (resolution {})", hu(encode(p)), p.res));
    } else if got != model {
        run.violation("C10.model", case(), format!("result has {} cells, the maximal antichain covering the same region has {}", got.len(), model.len()));
    }
    // the same set with about half of its cells written in an accepted non-canonical spelling (a stray bit the marker scan
    // ignores), and one canonical id repeated in such a spelling: the words are the same cells, so - where the library answers -
    // the result must be the very same canonical list (no echoed spelling, no group left unmerged, no cell twice)
    if ids.len() <= 4096 && rng.chance(0.3) {
        let mut ids2 = ids.clone();
        let mut changed = 0;
        for k in 0..ids2.len() {
            if rng.chance(0.5) {
                if let Some(w) = decode(ids2[k]).and_then(|c| stray_alias(rng, c)) {
                    ids2[k] = w;
                    changed += 1;
                }
            }
        }
        if let Some(w) = decode(ids[0]).and_then(|c| stray_alias(rng, c)) {
            ids2.push(if ids2[0] == w { ids[0] } else { w });
            changed += 1;
        }
        if changed > 0 {
            run.count("alias_spellings.sets");
            if let Ok(out2) = compact(&ids2) {
                run.count("alias_spellings.answered");
                if out2 != out {
                    run.violation(
                        "C10.alias_spelling",
                        json!({"ids": ids_json(&ids2), "canonical_ids": ids_json(&ids), "flavour": flavour}),
                        format!("compact of the same cells with {changed} of them in a non-canonical spelling returns {} ids, {} for the canonical ids; first difference at {:?}", out2.len(), out.len(), out2.iter().zip(out.iter()).position(|(a, b)| a != b)),
                    );
                    return;
                }
            }
        }
    }
    match compact(&out) {
        Ok(again) if again == out => {}
        Ok(again) => run.violation("C10.idempotent", case(), format!("compacting the result again changes it ({} -> {} cells)", out.len(), again.len())),
        Err(e) => run.violation("C10.ok", case(), format!("compact(compact(S)) failed: {e}")),
    }
    // a different antichain covering the same region
    let mut refined: Vec<MCell> = Vec::new();
    let mut changed = false;
    let mut expansions = 0;
    for c in set {
        if c.res < MAX_RES && refined.len() < 20000 && expansions < 300 && rng.chance(0.3) {
            let depth = 1 + rng.below(2) as i32;
            refined.extend(children_at(*c, (c.res + depth).min(MAX_RES)));
            changed = true;
            expansions += 1;
        } else {
            refined.push(*c);
        }
    }
    if changed {
        let ids2 = present(rng, &refined);
        match compact(&ids2) {
            Ok(o2) => {
                let a: BTreeSet<u64> = o2.iter().copied().collect();
                let b: BTreeSet<u64> = out.iter().copied().collect();
                run.count("canonical.refined_pairs");
                if a != b {
                    run.violation(
                        "C10.canonical",
                        json!({"ids": ids_json(&ids), "ids_refined": ids_json(&ids2), "flavour": flavour}),
                        format!("two antichains covering the same region compact to different sets ({} vs {} cells)", b.len(), a.len()),
                    );
                }
            }
            Err(e) => run.violation("C10.ok", case(), format!("compact failed on the refined set: {e}")),
        }
    }
    if model.len() < set.len() {
        run.nontrivial(set_hash(&ids));
        run.count("sets_with_merges");
        if ids.len() <= 40 && run.wants_sample(flavour) {
            run.sample(flavour, || json!({"input": ids_json(&ids), "compact": ids_json(&out), "model_cells": model.len()}));
        }
    }
    if set.iter().any(|c| c.res <= 1) && set.iter().any(|c| c.res >= 1) {
        run.count("sets_mixing_base_quintant_finer");
    }
}

/// deterministic corpus: the sets that defeated the pinned tree (known_findings.json D4) and their relatives
pub fn corpus() -> Vec<(String, Vec<MCell>)> {
    let base = |f: u8| MCell::new(0, f, 0, 0);
    let quints = |f: u8| -> Vec<MCell> { (0..5u8).map(|q| MCell::new(1, f, q, 0)).collect() };
    let mut v: Vec<(String, Vec<MCell>)> = Vec::new();
    v.push(("all base cells".into(), (0..12).map(base).collect()));
    for f in 0..12u8 {
        let mut s: Vec<MCell> = (0..12u8).filter(|g| *g != f).map(base).collect();
        s.extend(quints(f));
        v.push((format!("11 base cells + quintants of face {f}"), s));
        let mut s = quints(f);
        s.push(base(f));
        v.push((format!("quintants of face {f} + its base cell"), s));
        let mut s: Vec<MCell> = (0..12u8).filter(|g| *g != f).map(base).collect();
        for q in 0..5u8 {
            if q == f % 5 {
                s.extend(children_at(MCell::new(1, f, q, 0), 2));
            } else {
                s.push(MCell::new(1, f, q, 0));
            }
        }
        v.push((format!("11 base cells + face {f} as 4 quintants and 4 resolution-2 cells"), s));
    }
    let mut s: Vec<MCell> = (0..12).map(base).collect();
    s.push(WORLD);
    v.push(("base cells + world".into(), s));
    for r in 1..=3 {
        v.push((format!("all cells of resolution {r}"), children_at(WORLD, r)));
    }
    let mut s = Vec::new();
    for f in 0..12u8 {
        if f % 2 == 0 {
            s.push(base(f));
        } else {
            s.extend(quints(f));
        }
    }
    v.push(("alternating base cells and quintant groups".into(), s));
    v.push(("world alone".into(), vec![WORLD]));
    v
}

fn run_c08(ctx: &Ctx) -> Run {
    silence_panics();
    let threads = ctx.threads;
    parallel(threads, |w, run| {
        let mut rng = ctx.rng("C08", w);
        if w == 0 {
            for (name, set) in corpus() {
                let a = present(&mut rng, &set);
                let b = present(&mut rng, &set);
                run.count("corpus.sets");
                check_cover(run, &set, &a, &b, &name);
            }
            match compact(&[]) {
                Ok(v) if v.is_empty() => {}
                other => run.violation("C08.ok", json!({"ids": []}), format!("compact([]) = {:?}", other.map(|v| v.len()))),
            }
        }
        let n = ctx.n(200_000, 6_000_000) / threads as u64;
        for _ in 0..n {
            // error paths must leave nothing behind: now and then a few rejected calls precede the judged ones
            if rng.below(64) == 0 {
                crate::orc::failed_call_history(&mut rng);
            }
            let flavour = *rng.pick(&["antichain", "complete", "multiroot", "lowres", "lowres", "overlap", "overlap", "ancestors", "lookalike", "lookalike", "spine", "sized", "ends", "border"]);
            if rng.chance(0.1) {
                // history: a call that fails half way (a complete sibling group on a face that does not exist, after some valid
                // cells) must leave nothing behind for the next call on this thread
                let mut hostile: Vec<u64> = gen::cell_set(&mut rng, "antichain").iter().take(20).map(|c| encode(*c)).collect();
                let r = 2 + rng.below(27) as i32;
                let c = gen::random_cell(&mut rng, r);
                if let Some(p) = parent_at(c, c.res - 1) {
                    let top = 60 + rng.below(4);
                    hostile.extend(children_at(p, c.res).into_iter().map(|k| (encode(k) & ((1u64 << 58) - 1)) | (top << 58)));
                }
                let _ = compact(&hostile);
                run.count("history.preceded_by_a_call_on_hostile_ids");
            }
            let set = gen::cell_set(&mut rng, flavour);
            run.count(&format!("flavour.{flavour}"));
            run.count(&format!("input_len.{}", gen::len_bucket(set.len())));
            let a = present(&mut rng, &set);
            let b = present(&mut rng, &set);
            check_cover(run, &set, &a, &b, flavour);
        }
    })
}

fn run_c10(ctx: &Ctx) -> Run {
    silence_panics();
    let threads = ctx.threads;
    parallel(threads, |w, run| {
        let mut rng = ctx.rng("C10", w);
        if w == 0 {
            for (name, set) in corpus() {
                if is_antichain(&set) {
                    run.count("corpus.sets");
                    check_canonical(run, &mut rng, &set, &name);
                }
            }
        }
        let n = ctx.n(200_000, 6_000_000) / threads as u64;
        for _ in 0..n {
            // error paths must leave nothing behind: now and then a few rejected calls precede the judged ones
            if rng.below(64) == 0 {
                crate::orc::failed_call_history(&mut rng);
            }
            let flavour = *rng.pick(&["antichain", "complete", "multiroot", "lowres", "lowres", "lookalike", "spine", "sized", "ends", "border"]);
            if rng.chance(0.1) {
                // history: a call that fails half way must leave nothing behind for the next call on this thread
                let mut hostile: Vec<u64> = gen::cell_set(&mut rng, "antichain").iter().take(20).map(|c| encode(*c)).collect();
                let r = 2 + rng.below(27) as i32;
                let c = gen::random_cell(&mut rng, r);
                if let Some(p) = parent_at(c, c.res - 1) {
                    let top = 60 + rng.below(4);
                    hostile.extend(children_at(p, c.res).into_iter().map(|k| (encode(k) & ((1u64 << 58) - 1)) | (top << 58)));
                }
                let _ = compact(&hostile);
                run.count("history.preceded_by_a_call_on_hostile_ids");
            }
            let set = gen::cell_set(&mut rng, flavour);
            run.count(&format!("flavour.{flavour}"));
            run.count(&format!("input_len.{}", gen::len_bucket(set.len())));
            check_canonical(run, &mut rng, &set, flavour);
        }
    })
}

fn replay(check: &str, case: &Value, run: &mut Run) -> Option<()> {
    if !(check.starts_with("C08.") || check.starts_with("C10.")) {
        return None;
    }
    let ids = parse_ids(case.get("ids")?)?;
    let set: Vec<MCell> = {
        let s: BTreeSet<MCell> = ids.iter().filter_map(|i| decode(*i)).collect();
        s.into_iter().collect()
    };
    let mut rng = Rng::stream(1, "replay", 0);
    if check.starts_with("C08.") {
        let ids2 = case.get("ids_permuted").and_then(parse_ids).unwrap_or_else(|| ids.clone());
        let out = check_cover(run, &set, &ids, &ids2, "replay");
        println!("replay: compact({} ids) -> {:?}", ids.len(), out.map(|o| ids_json(&o)));
    } else {
        if !is_antichain(&set) {
            println!("replay: recorded set is not an antichain");
        }
        check_canonical(run, &mut rng, &set, "replay");
        if let Some(r) = case.get("ids_refined").and_then(parse_ids) {
            println!("replay: compact(refined {} ids) -> {:?}", r.len(), compact(&r).map(|o| o.len()));
        }
        println!("replay: compact({} ids) -> {:?} ; model has {} cells", ids.len(), compact(&ids).map(|o| ids_json(&o)), compact_model(&set).len());
    }
    Some(())
}
