//! C02 — a cell's centre and every interior point map back to that cell (DESIGN §6 C02)
use crate::gen::{self, Frame};
use crate::geom::*;
use crate::model::*;
use crate::mon::Monitor;
use crate::orc::*;
use crate::report::*;
use crate::rng::{mix, Rng};
use crate::Ctx;
use serde_json::{json, Value};

pub const MONITOR: Monitor = Monitor {
    id: "C02",
    rule: "one evaluation = one (cell, point) round trip: the reported centre, or an interior point proposed by the generator and admitted \
           by the oracle (inside the planar polygon by more than max(1e-12, 1e-9 cell sizes), or inside the reported ring by more than \
           its band), looked up at the cell's resolution; non-trivial = distinct (cell, point) with the point an interior point other \
           than the centre, or the centre of a cell of resolution >= 2",
    run,
    replay,
};

pub fn check_cell(run: &mut Run, rng: &mut Rng, c: MCell, class: &str, n_random: usize) {
    let id = encode(c);
    let case0 = || json!({"cell": hu(id), "res": c.res, "class": class});
    let centre = match flatten(guard(|| a5::cell_to_lonlat(id))) {
        Ok(p) => p,
        Err(e) => {
            run.violation("C02.ok", case0(), format!("cell_to_lonlat failed on a valid cell: {e}"));
            return;
        }
    };
    let (clon, clat) = (centre.longitude(), centre.latitude());
    run.evaluations += 1;
    match lookup(clon, clat, c.res) {
        Ok(back) if back == id => {}
        Ok(back) => {
            let d = o1(c, clon, clat).unwrap_or(f64::NAN);
            run.violation(
                "C02.centre",
                json!({"cell": hu(id), "res": c.res, "class": class, "lon": fj(clon), "lat": fj(clat)}),
                format!("centre ({clon}, {clat}) of {} maps to {} (signed distance of the centre to its own cell: {:.3e} rad = {:.3e} cell sizes)", hu(id), hu(back), d, d / cell_size(c.res)),
            );
        }
        Err(e) => run.violation("C02.ok", case0(), format!("lookup of the reported centre failed: {e}")),
    }
    if c.res >= 2 {
        run.nontrivial(mix(id, 1));
    }
    let l = cell_size(c.res);
    if let Ok(d) = o1(c, clon, clat) {
        // the centre should be well inside: -d / L is about 0.3..0.5
        run.margin("centre_signed_distance_over_cellsize", d / l, -0.05, case0);
    }
    // interior points
    let corners = match flatten(guard(|| a5::cell_to_boundary(id, Some(a5::core::cell::CellToBoundaryOptions { closed_ring: false, segments: Some(1) })))) {
        Ok(r) => r,
        Err(e) => {
            run.violation("C02.ok", case0(), format!("cell_to_boundary failed on a valid cell: {e}"));
            return;
        }
    };
    let nseg = if c.res <= 8 { 64 } else { 16 };
    let ring = match ring_units(id, nseg) {
        Ok(r) => r,
        Err(e) => {
            run.violation("C02.ok", case0(), format!("cell_to_boundary failed on a valid cell: {e}"));
            return;
        }
    };
    let band2 = o2_band(c.res, nseg);
    let cu = unit_from_lonlat(clon, clat);
    let vs: Vec<V3> = corners.iter().map(|p| unit_from_lonlat(p.longitude(), p.latitude())).collect();
    let nv = vs.len();
    let mut proposals: Vec<(V3, &str)> = Vec::new();
    for i in 0..nv {
        for t in [0.5, 0.9, 0.99, 1.0 - 1e-4] {
            proposals.push((normalize(add(cu, scale(sub(vs[i], cu), t))), "towards_corner"));
        }
        let m = normalize(add(vs[i], vs[(i + 1) % nv]));
        for t in [0.9, 0.999] {
            proposals.push((normalize(add(cu, scale(sub(m, cu), t))), "towards_edge_midpoint"));
        }
        // 1e-4 (relative) inside each corner, along both adjacent edges' bisector-ish directions
        let prev = vs[(i + nv - 1) % nv];
        let next = vs[(i + 1) % nv];
        let inward = add(scale(sub(prev, vs[i]), 1e-4), scale(sub(next, vs[i]), 1e-4));
        proposals.push((normalize(add(vs[i], inward)), "inside_corner_1e-4"));
    }
    for _ in 0..n_random {
        let i = rng.usize(nv);
        let (a, b) = (rng.f(), rng.f());
        let (a, b) = if a + b > 1.0 { (1.0 - a, 1.0 - b) } else { (a, b) };
        let q = add(cu, add(scale(sub(vs[i], cu), a), scale(sub(vs[(i + 1) % nv], cu), b)));
        proposals.push((normalize(q), "random_interior"));
    }
    let tol1 = (1e-12f64).max(1e-9 * l);
    for (q, kind) in proposals {
        let (lo, la) = lonlat_from_unit(q);
        let d1 = match o1(c, lo, la) {
            Ok(d) => d,
            Err(_) => continue,
        };
        let (in2, d2) = o2(&ring, unit_from_lonlat(lo, la));
        let adm1 = d1 < -tol1;
        let adm2 = in2 && d2 > band2;
        if !adm1 && !adm2 {
            run.count("proposals.not_admitted");
            continue;
        }
        run.evaluations += 1;
        run.count(if adm1 && adm2 { "admitted.by_both" } else if adm1 { "admitted.by_planar_oracle_only" } else { "admitted.by_ring_oracle_only" });
        run.count(kind);
        run.nontrivial(mix(mix(id, lo.to_bits()), la.to_bits()));
        match lookup(lo, la, c.res) {
            Ok(back) if back == id => {}
            Ok(back) => run.violation(
                "C02.interior",
                json!({"cell": hu(id), "res": c.res, "class": class, "lon": fj(lo), "lat": fj(la), "kind": kind}),
                format!(
                    "interior point ({lo}, {la}) of {} [{kind}; planar signed distance {:.3e} rad = {:.3e} cell sizes; inside reported ring: {in2} by {:.3e}] maps to {}",
                    hu(id),
                    d1,
                    d1 / l,
                    d2,
                    hu(back)
                ),
            ),
            Err(e) => run.violation("C02.ok", case0(), format!("lookup of an interior point failed: {e}")),
        }
    }
    if run.wants_sample(class) {
        run.sample(class, || json!({"cell": hu(id), "res": c.res, "centre": [clon, clat], "corners": corners.iter().map(|p| json!([p.longitude(), p.latitude()])).collect::<Vec<_>>()}));
    }
}

/// Hook-guided search for interior points whose lookup is fragile (cf. C01, DESIGN 12e): interior points of random cells are
/// mutated inside their cell, keeping those for which the lookup had to walk furthest along its probe spiral (hook H1). Every
/// point evaluated on the way is an oracle-admitted interior point and must map back to its cell like any other.
fn fragile_interior_search(run: &mut Run, rng: &mut Rng, steps: u64) {
    struct Item {
        effort: u8,
        c: MCell,
        q: V3,
    }
    let mut elite: Vec<Item> = Vec::new();
    let cap = 48;
    for step in 0..steps {
        let (c, q) = if elite.len() < cap || step % 4 == 0 {
            let r = 2 + rng.below(28) as i32;
            let c = gen::random_cell(rng, r);
            let id = encode(c);
            let (Ok(cu), Ok(ring)) = (centre_unit(id), ring_units(id, 1)) else { continue };
            let i = rng.usize(ring.len());
            let (a, b) = (rng.f(), rng.f());
            let (a, b) = if a + b > 1.0 { (1.0 - a, 1.0 - b) } else { (a, b) };
            (c, normalize(add(cu, add(scale(sub(ring[i], cu), a), scale(sub(ring[(i + 1) % ring.len()], cu), b)))))
        } else {
            let it = &elite[rng.usize(elite.len())];
            let eps = cell_size(it.c.res) * 10f64.powf(rng.range(-4.0, -0.7));
            (it.c, gen::nudge(rng, it.q, eps))
        };
        let (lo, la) = lonlat_from_unit(q);
        let l = cell_size(c.res);
        // admitted only by the planar oracle, with the same tolerance as everywhere else in this monitor
        match o1(c, lo, la) {
            Ok(d) if d < -(1e-12f64).max(1e-9 * l) => {}
            _ => continue,
        }
        let id = encode(c);
        run.evaluations += 1;
        run.count("fragile_search.interior_points");
        let effort = match lookup(lo, la, c.res) {
            Ok(back) => {
                let b = last_lookup_branch();
                if back != id {
                    run.violation(
                        "C02.interior",
                        json!({"cell": hu(id), "res": c.res, "class": "fragile_search", "lon": fj(lo), "lat": fj(la), "kind": "fragile_search"}),
                        format!("interior point ({lo}, {la}) of {} [found by the hook-guided search; lookup branch {:?}] maps to {}", hu(id), b, hu(back)),
                    );
                }
                if b.0 == 2 {
                    b.1.min(25)
                } else {
                    0
                }
            }
            Err(e) => {
                run.violation("C02.ok", json!({"cell": hu(id), "res": c.res, "class": "fragile_search"}), format!("lookup of an interior point failed: {e}"));
                0
            }
        };
        run.count(&format!("fragile_search.probe_index.{effort:02}"));
        if elite.len() < cap {
            elite.push(Item { effort, c, q });
        } else if let Some(k) = (0..elite.len()).min_by_key(|k| elite[*k].effort) {
            if effort >= elite[k].effort {
                elite[k] = Item { effort, c, q };
            }
        }
    }
}

fn run(ctx: &Ctx) -> Run {
    silence_panics();
    let threads = ctx.threads;
    let exhaustive_to: i32 = if ctx.quick() { 4 } else { 7 };
    let mut out = parallel(threads, |w, run| {
        let mut rng = ctx.rng("C02", w);
        let fr = Frame::new();
        // (1) exhaustive small resolutions
        for res in 0..=exhaustive_to {
            for (k, c) in children_at(WORLD, res).into_iter().enumerate() {
                if k % threads == w {
                    check_cell(run, &mut rng, c, "exhaustive", 2);
                    run.count(&format!("exhaustive.res{res:02}"));
                }
            }
        }
        // (2) stratified constructed cells: every face x quintant x position pattern at every resolution
        let per_res = ctx.n(2_400, 60_000) / threads as u64 + 1;
        for res in (exhaustive_to + 1)..=29 {
            for i in 0..per_res {
                let k = (i as usize * threads + w) % 60;
                let pat = gen::S_PATTERNS[(i as usize / 60 + w) % gen::S_PATTERNS.len()];
                let s = gen::s_pattern(&mut rng, (res - 1) as u32, pat);
                if i % 2 == 1 {
                    prime_history(&mut rng, MCell::new(res, (k / 5) as u8, (k % 5) as u8, s));
                    run.count("stratified.primed_with_a_relative");
                }
                check_cell(run, &mut rng, MCell::new(res, (k / 5) as u8, (k % 5) as u8, s), "stratified", 3);
                run.count(&format!("stratified.res{res:02}"));
            }
        }
        // (2b) hook-guided search for interior points whose lookup is fragile
        fragile_interior_search(run, &mut rng, ctx.n(400_000, 20_000_000) / threads as u64);
        // (3) the cells reached by the hostile point classes (poles, seams, vertices, face centres, antimeridian)
        let n = ctx.n(48_000, 2_000_000) / threads as u64;
        for _ in 0..n {
            let class = *rng.pick(&gen::POINT_CLASSES);
            let (lon, lat) = gen::point(&mut rng, &fr, class);
            let res = gen::random_res(&mut rng);
            if let Ok(id) = lookup(lon, lat, res) {
                if let Some(c) = decode(id) {
                    check_cell(run, &mut rng, c, class, 3);
                    run.count(&format!("class.{class}"));
                }
            }
        }
        if w == 0 {
            // regression: the polar fine cell whose centre did not map back on the pinned tree (known_findings.json D5)
            for res in 20..=29 {
                for (lon, lat) in [(-94.00024804929757, -89.9999999998154), (12.5, 89.99999999999), (170.0, -89.9999999), (-93.0, 90.0), (87.0, -90.0)] {
                    if let Ok(id) = lookup(lon, lat, res) {
                        if let Some(c) = decode(id) {
                            check_cell(run, &mut rng, c, "regression.D5", 3);
                        }
                    }
                }
            }
        }
    });
    for res in 0..=exhaustive_to {
        if out.counters.get(&format!("exhaustive.res{res:02}")).copied().unwrap_or(0) as u128 != num_cells(res) {
            out.inconclusive(format!("exhaustive pass did not visit every cell of resolution {res}"));
        }
    }
    out.note(format!("exhaustive: every cell of resolution 0..={exhaustive_to}"));
    out
}

fn replay(check: &str, case: &Value, run: &mut Run) -> Option<()> {
    if !check.starts_with("C02.") {
        return None;
    }
    let id = parse_hex_u64(case.get("cell")?)?;
    let c = decode(id)?;
    let mut rng = Rng::stream(1, "replay", 0);
    check_cell(run, &mut rng, c, "replay", 50);
    if let (Some(lon), Some(lat)) = (case.get("lon").and_then(parse_f), case.get("lat").and_then(parse_f)) {
        println!("replay: recorded point ({lon:?}, {lat:?}) -> {:?}, O1 = {:?}", lookup(lon, lat, c.res).map(hu), o1(c, lon, lat));
    }
    Some(())
}
