//! one monitor per property
use crate::report::Run;
use crate::Ctx;
use serde_json::Value;

pub mod c01;
pub mod c02;
pub mod c03;
pub mod c04;
pub mod c11;
pub mod c12;
pub mod c13;
pub mod c15;
pub mod c17;
pub mod c18;
pub mod c19;
pub mod c05;
pub mod c06;
pub mod c07;
pub mod c08;
pub mod c09;
pub mod c20;

pub struct Monitor {
    pub id: &'static str,
    pub rule: &'static str,
    pub run: fn(&Ctx) -> Run,
    /// re-execute one recorded case; returns None when `check` is not one of this monitor's
    pub replay: fn(check: &str, case: &Value, run: &mut Run) -> Option<()>,
}

pub fn all() -> Vec<Monitor> {
    vec![c01::MONITOR, c02::MONITOR, c03::MONITOR, c04::MONITOR, c11::MONITOR, c12::MONITOR, c13::MONITOR, c15::MONITOR_C15, c15::MONITOR_C16, c17::MONITOR, c18::MONITOR, c19::MONITOR, c05::MONITOR, c06::MONITOR, c07::MONITOR, c08::MONITOR_C08, c09::MONITOR, c08::MONITOR_C10, c20::MONITOR]
}
