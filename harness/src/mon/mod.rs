//! one monitor per property
use crate::report::Run;
use crate::Ctx;
use serde_json::Value;

pub mod c01;

pub struct Monitor {
    pub id: &'static str,
    pub rule: &'static str,
    pub run: fn(&Ctx) -> Run,
    /// re-execute one recorded case; returns None when `check` is not one of this monitor's
    pub replay: fn(check: &str, case: &Value, run: &mut Run) -> Option<()>,
}

pub fn all() -> Vec<Monitor> {
    vec![c01::MONITOR]
}
