//! C19 — geodetic <-> authalic and lon/lat <-> sphere conversions are exact inverses (DESIGN §6 C19)
use crate::gen::{self, Frame};
use crate::geom::*;
use crate::mon::Monitor;
use crate::orc::*;
use crate::report::*;
use crate::rng::mix;
use crate::Ctx;
use a5::coordinate_systems::{LonLat, Radians};
use a5::core::coordinate_transforms::{from_lon_lat, to_lon_lat};
use a5::projections::authalic::AuthalicProjection;
use serde_json::{json, Value};
use std::f64::consts::FRAC_PI_2;

pub const MONITOR: Monitor = Monitor {
    id: "C19",
    rule: "one evaluation = one latitude through AuthalicProjection forward / inverse (round trip <= 1e-12, odd symmetry, agreement with the \
           closed-form WGS84 authalic latitude <= 1e-11 for |lat| <= 89 deg, strict monotonicity between consecutive grid points), or one \
           lon/lat pair through from_lon_lat / to_lon_lat (same physical point <= 1e-12 rad); non-trivial = distinct inputs",
    run,
    replay,
};

fn fwd(phi: f64) -> f64 {
    AuthalicProjection.forward(Radians::new_unchecked(phi)).get()
}
fn inv(beta: f64) -> f64 {
    AuthalicProjection.inverse(Radians::new_unchecked(beta)).get()
}

pub fn check_latitude(run: &mut Run, phi: f64, class: &str) -> Option<f64> {
    run.evaluations += 1;
    let case = || json!({"lat_rad": fj(phi), "class": class});
    // both maps are evaluated at the bitwise-same argument right after each other, and both round trips are taken
    let r = guard(|| {
        let beta = fwd(phi);
        let inv_same_arg = inv(phi);
        let back = inv(beta);
        let there = fwd(inv_same_arg);
        (beta, back, fwd(-phi), inv_same_arg, there)
    });
    let (beta, back, neg, inv_same_arg, there) = match r {
        Ok(t) => t,
        Err(e) => {
            run.violation("C19.ok", case(), format!("authalic conversion {e}"));
            return None;
        }
    };
    if run.margin("authalic_round_trip_rad", (back - phi).abs(), 1e-12, case) {
        run.violation("C19.round_trip", case(), format!("inverse(forward({phi})) = {back}: off by {:.3e} rad", back - phi));
    }
    if run.margin("authalic_reverse_round_trip_rad", (there - phi).abs(), 1e-12, case) {
        run.violation("C19.round_trip", case(), format!("forward(inverse({phi})) = {there}: off by {:.3e} rad (inverse gave {inv_same_arg})", there - phi));
    }
    // the two maps move a latitude in opposite directions by (almost) the same small amount
    if run.margin("authalic_forward_plus_inverse_minus_2x_rad", (beta + inv_same_arg - 2.0 * phi).abs(), 5e-5, case) {
        run.violation("C19.round_trip", case(), format!("forward({phi}) = {beta} and inverse({phi}) = {inv_same_arg} are not mirror images about the argument"));
    }
    if run.margin("authalic_odd_symmetry_rad", (neg + beta).abs(), 1e-13, case) {
        run.violation("C19.odd", case(), format!("forward(-x) = {neg} but forward(x) = {beta}"));
    }
    if phi.abs() <= 89f64.to_radians() {
        let want = authalic_lat_textbook(phi);
        if run.margin("authalic_vs_closed_form_rad", (beta - want).abs(), 1e-11, case) {
            run.violation("C19.closed_form", case(), format!("forward({phi}) = {beta}, closed-form WGS84 authalic latitude {want}: differ by {:.3e} rad", beta - want));
        }
    } else {
        // towards the poles compare colatitudes (the closed form in colatitude form is exact there)
        let want = FRAC_PI_2 - authalic_colat(FRAC_PI_2 - phi.abs());
        run.margin("authalic_vs_closed_form_polar_rad", (beta.abs() - want).abs(), 1e-10, case);
    }
    if beta.abs() > FRAC_PI_2 + 1e-15 {
        run.violation("C19.range", case(), format!("forward({phi}) = {beta} is beyond the pole"));
    }
    run.nontrivial(mix(phi.to_bits(), 19));
    if run.wants_sample(class) {
        run.sample(class, || json!({"geodetic_lat_rad": phi, "authalic_lat_rad": beta, "round_trip_error": back - phi}));
    }
    Some(beta)
}

pub fn check_lonlat(run: &mut Run, lon: f64, lat: f64, class: &str) {
    run.evaluations += 1;
    let case = || json!({"lon": fj(lon), "lat": fj(lat), "class": class});
    match guard(|| to_lon_lat(from_lon_lat(LonLat::new(lon, lat)))) {
        Ok(back) => {
            let a = unit_from_lonlat(lon, lat);
            let b = unit_from_lonlat(back.longitude(), back.latitude());
            let ulp = lookup_band(lon) - 1e-12;
            if !back.longitude().is_finite() || !back.latitude().is_finite() {
                run.violation("C19.lonlat", case(), format!("round trip gives ({}, {})", back.longitude(), back.latitude()));
            } else if run.margin("lonlat_round_trip_rad", chord_angle(a, b) - ulp, 1e-12, case) {
                run.violation("C19.lonlat", case(), format!("({lon}, {lat}) -> sphere -> ({}, {}): {:.3e} rad apart", back.longitude(), back.latitude(), chord_angle(a, b)));
            }
            run.nontrivial(mix(lon.to_bits(), lat.to_bits()));
            if run.wants_sample(class) {
                run.sample(class, || json!({"lon": lon, "lat": lat, "back": [back.longitude(), back.latitude()]}));
            }
        }
        Err(e) => run.violation("C19.ok", case(), format!("lon/lat conversion {e}")),
    }
}

fn run(ctx: &Ctx) -> Run {
    silence_panics();
    let threads = ctx.threads;
    parallel(threads, |w, run| {
        let mut rng = ctx.rng("C19", w);
        let fr = Frame::new();
        // dense grid over [-pi/2, pi/2], each worker owns a contiguous slab; strict monotonicity between neighbours
        let grid = ctx.n(8_000_000, 100_000_000);
        let per = grid / threads as u64;
        let lo = w as u64 * per;
        let mut prev: Option<(f64, f64)> = None;
        for i in lo..=(lo + per).min(grid) {
            let phi = -FRAC_PI_2 + std::f64::consts::PI * (i as f64 / grid as f64);
            let phi = phi.clamp(-FRAC_PI_2, FRAC_PI_2);
            if let Some(beta) = check_latitude(run, phi, "grid") {
                if let Some((pphi, pbeta)) = prev {
                    if phi > pphi && !(beta > pbeta) {
                        run.violation("C19.monotone", json!({"lat_rad": fj(phi), "previous": fj(pphi)}), format!("forward is not strictly increasing: f({pphi}) = {pbeta}, f({phi}) = {beta}"));
                    }
                }
                prev = Some((phi, beta));
            }
        }
        run.countn("grid_points", per + 1);
        if w == 0 {
            for (phi, want) in [(0.0, 0.0), (FRAC_PI_2, FRAC_PI_2), (-FRAC_PI_2, -FRAC_PI_2)] {
                run.evaluations += 1;
                let got = fwd(phi);
                let got_inv = inv(want);
                if run.margin("fixed_points_rad", (got - want).abs().max((got_inv - phi).abs()), 1e-13, || json!({"lat_rad": fj(phi)})) {
                    run.violation("C19.fixed_points", json!({"lat_rad": fj(phi)}), format!("forward({phi}) = {got}, inverse({want}) = {got_inv}"));
                }
            }
        }
        // random latitudes, log-concentrated at the equator and at the poles; neighbouring floats for fine monotonicity
        let n = ctx.n(4_000_000, 100_000_000) / threads as u64;
        for _ in 0..n {
            // error paths must leave nothing behind: now and then a few rejected calls precede the judged ones
            if rng.below(64) == 0 {
                crate::orc::failed_call_history(&mut rng);
            }
            let phi = match rng.below(4) {
                0 => rng.log10(0.0, 16.0) * rng.sign(),
                1 => (FRAC_PI_2 - rng.log10(0.0, 16.0)) * rng.sign(),
                _ => rng.range(-FRAC_PI_2, FRAC_PI_2),
            };
            let b = check_latitude(run, phi, "random");
            if rng.chance(0.2) {
                let step = rng.log10(6.0, 12.0);
                let phi2 = (phi + step).min(FRAC_PI_2);
                if phi2 > phi {
                    if let (Some(b1), Some(b2)) = (b, check_latitude(run, phi2, "random")) {
                        if !(b2 > b1) {
                            run.violation("C19.monotone", json!({"lat_rad": fj(phi2), "previous": fj(phi)}), format!("forward is not strictly increasing: f({phi}) = {b1}, f({phi2}) = {b2}"));
                        }
                        run.count("monotone.random_pairs");
                    }
                }
            }
        }
        // lon/lat pairs
        let n = ctx.n(4_000_000, 100_000_000) / threads as u64;
        for _ in 0..n {
            // error paths must leave nothing behind: now and then a few rejected calls precede the judged ones
            if rng.below(64) == 0 {
                crate::orc::failed_call_history(&mut rng);
            }
            let class = *rng.pick(&["uniform", "polar", "antimeridian", "fcentre", "wide"]);
            let (lon, lat) = if class == "wide" { (rng.range(-540.0, 540.0), rng.range(-90.0, 90.0)) } else { gen::point(&mut rng, &fr, class) };
            let lon = if rng.chance(0.1) { gen::wrap(&mut rng, lon).clamp(-540.0, 540.0) } else { lon };
            run.count(&format!("lonlat.{class}"));
            check_lonlat(run, lon, lat, class);
        }
        if w == 0 {
            for lon in [-540.0, -180.0, 0.0, 180.0, 540.0, 87.0, -93.0] {
                for lat in [-90.0, 90.0, 0.0, 89.99999999999999, -89.99999999999999] {
                    check_lonlat(run, lon, lat, "corpus");
                }
            }
        }
    })
}

fn replay(check: &str, case: &Value, run: &mut Run) -> Option<()> {
    if !check.starts_with("C19.") {
        return None;
    }
    if let Some(phi) = case.get("lat_rad").and_then(parse_f) {
        check_latitude(run, phi, "replay");
        if let Some(p) = case.get("previous").and_then(parse_f) {
            println!("replay: forward({p:?}) = {:?}; forward({phi:?}) = {:?}", fwd(p), fwd(phi));
            if !(fwd(phi) > fwd(p)) {
                run.violation("C19.monotone", case.clone(), "not strictly increasing".to_string());
            }
        }
        println!("replay: forward({phi:?}) = {:?}, closed form {:?}", fwd(phi), authalic_lat_textbook(phi));
    } else {
        let lon = parse_f(case.get("lon")?)?;
        let lat = parse_f(case.get("lat")?)?;
        check_lonlat(run, lon, lat, "replay");
    }
    Some(())
}
