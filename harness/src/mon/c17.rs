//! C17 — within a quintant the curve position <-> cell mapping is a bijection (DESIGN §6 C17)
use crate::geom::*;
use crate::gen;
use crate::mon::c15::R_VERTEX;
use crate::mon::Monitor;
use crate::orc::*;
use crate::report::*;
use crate::rng::mix;
use crate::Ctx;
use a5::coordinate_systems::Face;
use a5::core::coordinate_transforms::face_to_ij;
use a5::core::hilbert::{ij_to_s, s_to_anchor, Orientation};
use a5::core::tiling::get_pentagon_vertices;
use serde_json::{json, Value};
use std::collections::HashSet;

pub const MONITOR: Monitor = Monitor {
    id: "C17",
    rule: "one evaluation = one (curve depth n, orientation, position s): the pentagon placed for s (s_to_anchor + get_pentagon_vertices) \
           must have its centre inside the quintant triangle u,v,w, all centres of one (n, orientation) must be pairwise distinct, and \
           locating the centre (face_to_ij + ij_to_s) must return s; non-trivial = distinct (n, orientation, s) with n >= 2",
    run,
    replay,
};

pub const ORIENTATIONS: [(Orientation, &str); 6] = [
    (Orientation::UV, "uv"),
    (Orientation::VU, "vu"),
    (Orientation::UW, "uw"),
    (Orientation::WU, "wu"),
    (Orientation::VW, "vw"),
    (Orientation::WV, "wv"),
];

fn quintant_triangle() -> [P2; 3] {
    let a = 36f64.to_radians();
    [[0.0, 0.0], [R_VERTEX * a.cos(), R_VERTEX * a.sin()], [R_VERTEX * a.cos(), -R_VERTEX * a.sin()]]
}

/// centre of the pentagon at position s (face-plane units), and what locating it returns
pub fn place_and_locate(s: u64, n: usize, o: Orientation) -> Result<(P2, u64), String> {
    guard(|| {
        let anchor = s_to_anchor(s, n, o);
        let shape = get_pentagon_vertices(n as i32, 0, &anchor);
        let c = shape.get_center();
        let scale = 2f64.powi(n as i32);
        let ij = face_to_ij(Face::new(c.x() * scale, c.y() * scale));
        ([c.x(), c.y()], ij_to_s(ij, n, o))
    })
}

pub fn check_position(run: &mut Run, s: u64, n: usize, oi: usize, seen: Option<&mut HashSet<(i64, i64)>>) {
    run.evaluations += 1;
    let (o, oname) = ORIENTATIONS[oi];
    let case = || json!({"s": hu(s), "n": n, "orientation": oname});
    match place_and_locate(s, n, o) {
        Ok((c, back)) => {
            if back != s {
                run.violation("C17.locate", case(), format!("the centre of the pentagon at position {s} (depth {n}, {oname}) is located at position {back}"));
            }
            let d = convex_signed_dist(&quintant_triangle(), c);
            if run.margin("centre_outside_triangle", d, 1e-12, case) {
                run.violation("C17.inside", case(), format!("centre {:?} of position {s} (depth {n}, {oname}) is {:.3e} outside the quintant triangle", c, d));
            }
            if let Some(seen) = seen {
                let scale = 2f64.powi(n as i32) * 1e6;
                let key = ((c[0] * scale).round() as i64, (c[1] * scale).round() as i64);
                if !seen.insert(key) {
                    run.violation("C17.distinct", case(), format!("position {s} (depth {n}, {oname}) places a pentagon on a centre already used by another position: {:?}", c));
                }
            }
            if n >= 2 {
                run.nontrivial(mix(mix(s, n as u64), oi as u64));
            }
            if run.wants_sample(oname) && s > 5 {
                run.sample(oname, || json!({"s": s, "n": n, "orientation": oname, "centre": c, "located_at": back}));
            }
        }
        Err(e) => run.violation("C17.ok", case(), format!("placing / locating failed: {e}")),
    }
}

fn run(ctx: &Ctx) -> Run {
    silence_panics();
    let threads = ctx.threads;
    let exhaustive_to: usize = if ctx.quick() { 9 } else { 12 };
    let mut out = parallel(threads, |w, run| {
        let mut rng = ctx.rng("C17", w);
        // (1) exhaustive: each (n, orientation) is one job; a job owns the set of centres seen, so distinctness is global per job
        let mut job = 0usize;
        for n in 1..=exhaustive_to {
            for oi in 0..6 {
                job += 1;
                if job % threads != w {
                    continue;
                }
                let mut seen: HashSet<(i64, i64)> = HashSet::with_capacity(1 << (2 * n));
                for s in 0..(1u64 << (2 * n)) {
                    check_position(run, s, n, oi, Some(&mut seen));
                }
                if seen.len() as u64 != 1u64 << (2 * n) {
                    run.violation("C17.distinct", json!({"n": n, "orientation": ORIENTATIONS[oi].1}), format!("4^{n} positions give only {} distinct centres", seen.len()));
                }
                run.countn(&format!("exhaustive.n{n:02}.positions"), 1u64 << (2 * n));
            }
        }
        // (2) deep curves: digit patterns and random positions, distinctness within the sample
        let per = ctx.n(40_000, 1_000_000) / threads as u64 + 1;
        for n in (exhaustive_to + 1)..=29 {
            for oi in 0..6 {
                let mut seen: HashSet<(i64, i64)> = HashSet::new();
                let mut positions: HashSet<u64> = HashSet::new();
                for pat in gen::S_PATTERNS {
                    for _ in 0..3 {
                        positions.insert(gen::s_pattern(&mut rng, n as u32, pat));
                    }
                }
                for _ in 0..per {
                    positions.insert(gen::s_pattern(&mut rng, n as u32, "random"));
                }
                // neighbours along the curve
                let extra: Vec<u64> = positions.iter().take(64).flat_map(|s| [s.wrapping_add(1), s.wrapping_sub(1)]).filter(|s| *s < (1u64 << (2 * n))).collect();
                positions.extend(extra);
                let sample: Vec<u64> = positions.iter().copied().collect();
                for s in positions {
                    check_position(run, s, n, oi, if n <= 24 { Some(&mut seen) } else { None });
                }
                // curve neighbours back to back (s-1, s, s+1 in this order): consecutive positions are adjacent cells that
                // share their leading digits - where a shortcut that reuses state from the previous call would go wrong
                let max = 1u64 << (2 * n);
                for s in sample.iter().take(48) {
                    for t in [s.wrapping_sub(1), *s, s.wrapping_add(1), *s] {
                        if t < max {
                            check_position(run, t, n, oi, None);
                            run.count("deep.back_to_back");
                        }
                    }
                }
                run.count(&format!("deep.n{n:02}"));
            }
        }
    });
    // (3) interleaved replay: the same (depth, orientation, position) triples evaluated many times in a random order that
    // mixes depths and orientations; every evaluation must satisfy the oracle again (a result that depends on which
    // other curve was evaluated before - a mis-keyed memo - shows up here and nowhere else)
    let inter = parallel(threads, |w, run| {
        let mut rng = ctx.rng("C17.interleave", w);
        let mut pool: Vec<(u64, usize, usize)> = Vec::new();
        let smalls: Vec<u64> = (0..24).chain([63, 64, 255, 256, 1023, 1024, 4095, 4096].into_iter()).collect();
        for n in 1..=29usize {
            for oi in 0..6 {
                for s in &smalls {
                    if *s < (1u64 << (2 * n)) && (n + oi + *s as usize) % threads == w {
                        pool.push((*s, n, oi));
                    }
                }
                for pat in ["max", "all3", "alt"] {
                    let s = gen::s_pattern(&mut rng, n as u32, pat);
                    if (n + oi) % threads == w {
                        pool.push((s, n, oi));
                    }
                }
            }
        }
        if pool.is_empty() {
            return;
        }
        let rounds = ctx.n(40, 400);
        for _ in 0..rounds {
            rng.shuffle(&mut pool);
            for (s, n, oi) in pool.iter() {
                check_position(run, *s, *n, *oi, None);
                run.count("interleaved.evaluations");
            }
            // and same position on curves 16 levels apart / of the other flip family, directly one after the other
            for _ in 0..pool.len() / 4 {
                let (s, n, oi) = *rng.pick(&pool);
                check_position(run, s, n, oi, None);
                let n2 = if n > 16 { n - 16 } else { n + 16 };
                if n2 <= 29 && s < (1u64 << (2 * n2)) {
                    check_position(run, s, n2, rng.usize(6), None);
                    check_position(run, s, n, oi, None);
                }
            }
        }
    });
    out.merge(inter);
    for n in 1..=exhaustive_to {
        if out.counters.get(&format!("exhaustive.n{n:02}.positions")).copied().unwrap_or(0) != 6 * (1u64 << (2 * n)) {
            out.inconclusive(format!("exhaustive pass incomplete for depth {n}"));
        }
    }
    out.note(format!("exhaustive: all 4^n positions for n = 1..={exhaustive_to} and all 6 orientations"));
    out
}

fn replay(check: &str, case: &Value, run: &mut Run) -> Option<()> {
    if !check.starts_with("C17.") {
        return None;
    }
    let n = case["n"].as_u64()? as usize;
    let oi = ORIENTATIONS.iter().position(|(_, name)| Some(*name) == case["orientation"].as_str())?;
    if let Some(s) = case.get("s").and_then(parse_hex_u64) {
        check_position(run, s, n, oi, None);
        println!("replay: place_and_locate({s}, {n}, {}) = {:?}", ORIENTATIONS[oi].1, place_and_locate(s, n, ORIENTATIONS[oi].0));
    } else if n <= 10 {
        let mut seen = HashSet::new();
        for s in 0..(1u64 << (2 * n)) {
            check_position(run, s, n, oi, Some(&mut seen));
        }
    }
    Some(())
}
