//! C12 — children geometrically overlap their parent and stay within its reach (DESIGN §6 C12)
use crate::gen;
use crate::geom::*;
use crate::model::*;
use crate::mon::Monitor;
use crate::orc::*;
use crate::report::*;
use crate::rng::{mix, Rng};
use crate::Ctx;
use serde_json::{json, Value};

pub const MONITOR: Monitor = Monitor {
    id: "C12",
    rule: "one evaluation = one parent cell with the children the library returns for it: each child's planar polygon is clipped \
           against the parent's (Sutherland-Hodgman) and must share interior area, the clipped areas must sum to more than half of the \
           parent, each child's reported centre must lie within 0.8 sqrt(parent area) of the parent's; non-trivial = distinct parents \
           of resolution >= 1 (below that, nesting is exact)",
    run,
    replay,
};

pub fn check_parent(run: &mut Run, c: MCell, class: &str) {
    run.evaluations += 1;
    let id = encode(c);
    let case = || json!({"cell": hu(id), "res": c.res, "class": class});
    let kids = match children(id, None) {
        Ok(k) => k,
        Err(e) => {
            run.violation("C12.ok", case(), format!("cell_to_children failed: {e}"));
            return;
        }
    };
    // a parent named by an accepted alias (a stray bit below the marker) has the same children
    if mix(id, 0xa11a5) % 16 == 0 {
        let mut arng = Rng::stream(id, "C12.alias", 0);
        if let Some(w) = stray_alias(&mut arng, c) {
            run.count("parents_also_named_by_an_alias");
            if let Ok(v) = children(w, None) {
                if v != kids {
                    run.violation("C12.alias", json!({"cell": hu(id), "alias": hu(w)}), format!("{} is accepted as an alias of {} but its children are not that cell's children: they cannot all overlap it", hu(w), hu(id)));
                }
            }
        }
    }
    let ppoly = match cell_polygon(c) {
        Ok(p) => p,
        Err(e) => {
            run.violation("C12.ok", case(), format!("placing the parent failed: {e}"));
            return;
        }
    };
    let parea = poly_area2(&ppoly).abs() / 2.0;
    let pc = match centre_unit(id) {
        Ok(u) => u,
        Err(e) => {
            run.violation("C12.ok", case(), format!("cell_to_lonlat failed: {e}"));
            return;
        }
    };
    let reach = 0.8 * (4.0 * std::f64::consts::PI / num_cells(c.res) as f64).sqrt();
    let mut cover = 0.0;
    for k in &kids {
        let kc = match decode(*k) {
            Some(kc) if kc.face == c.face => kc,
            _ => {
                run.violation("C12.ok", case(), format!("child {} is not a canonical cell on the parent's face", hu(*k)));
                return;
            }
        };
        let kpoly = match cell_polygon(kc) {
            Ok(p) => p,
            Err(e) => {
                run.violation("C12.ok", case(), format!("placing child {} failed: {e}", hu(*k)));
                return;
            }
        };
        let karea = poly_area2(&kpoly).abs() / 2.0;
        let inter = clip_convex(&kpoly, &ppoly);
        let iarea = if inter.len() >= 3 { poly_area2(&inter).abs() / 2.0 } else { 0.0 };
        cover += iarea;
        let frac = iarea / karea;
        // margin is recorded as "how little is shared": 1 - frac, bound just below 1
        if run.margin("one_minus_shared_fraction_of_child", 1.0 - frac, 1.0 - 1e-9, || json!({"cell": hu(id), "child": hu(*k)})) {
            run.violation("C12.overlap", json!({"cell": hu(id), "res": c.res, "child": hu(*k), "class": class}), format!("child {} shares no interior area with its parent {} (shared fraction of the child {:.3e})", hu(*k), hu(id), frac));
        }
        match centre_unit(*k) {
            Ok(ku) => {
                let d = chord_angle(ku, pc);
                if run.margin("centre_distance_over_sqrt_parent_area", d / (reach / 0.8), 0.8, || json!({"cell": hu(id), "child": hu(*k)})) {
                    run.violation("C12.reach", json!({"cell": hu(id), "res": c.res, "child": hu(*k), "class": class}), format!("centre of child {} is {:.4} sqrt(parent area) away from the parent's centre (bound 0.8)", hu(*k), d / (reach / 0.8)));
                }
            }
            Err(e) => run.violation("C12.ok", case(), format!("cell_to_lonlat({}) failed: {e}", hu(*k))),
        }
    }
    // the same overlap measured from what the API REPORTS (rings of parent and children, corners only, in the tangent plane at
    // the parent's reported centre): for all parents of resolution >= 24, where a reported coordinate that is off by 1e-10 rad
    // matters, and for a sample of the others
    if c.res >= 24 || mix(id, 0x12b) % 8 == 0 {
        if let Ok(pring) = ring_units(id, 1) {
            let (e1, e2) = tangent_basis(pc);
            let to_plane = |ring: &Vec<V3>| -> Vec<P2> { ring.iter().map(|v| gnomonic(*v, pc, e1, e2)).collect() };
            let pp = to_plane(&pring);
            for k in &kids {
                if let Ok(kring) = ring_units(*k, 1) {
                    let kp = to_plane(&kring);
                    let karea = poly_area2(&kp).abs() / 2.0;
                    let inter = clip_convex(&kp, &pp);
                    let iarea = if inter.len() >= 3 { poly_area2(&inter).abs() / 2.0 } else { 0.0 };
                    run.count("reported_rings.child_overlaps_measured");
                    if run.margin("one_minus_shared_fraction_of_child_by_reported_rings", 1.0 - iarea / karea, 1.0 - 1e-6, || json!({"cell": hu(id), "child": hu(*k)})) {
                        run.violation(
                            "C12.overlap",
                            json!({"cell": hu(id), "res": c.res, "child": hu(*k), "class": class, "view": "reported rings"}),
                            format!("by their reported boundaries child {} shares no interior area with its parent {} (shared fraction of the child {:.3e})", hu(*k), hu(id), iarea / karea),
                        );
                    }
                }
            }
        }
    }
    let cov = cover / parea;
    if run.margin("one_minus_cover_fraction", 1.0 - cov, 0.5, case) {
        run.violation("C12.cover", case(), format!("children cover only {:.4} of the parent's area (must exceed 0.5)", cov));
    }
    if c.res >= 1 {
        run.nontrivial(mix(id, 12));
    }
    if run.wants_sample(class) {
        run.sample(class, || json!({"cell": hu(id), "res": c.res, "children": ids_json(&kids), "cover_fraction": cov}));
    }
}

fn run(ctx: &Ctx) -> Run {
    silence_panics();
    let threads = ctx.threads;
    let exhaustive_to: i32 = if ctx.quick() { 5 } else { 7 };
    let mut out = parallel(threads, |w, run| {
        let mut rng = ctx.rng("C12", w);
        for res in 0..=exhaustive_to {
            for (k, c) in children_at(WORLD, res).into_iter().enumerate() {
                if k % threads == w {
                    check_parent(run, c, "exhaustive");
                    run.count(&format!("exhaustive.res{res:02}"));
                }
            }
        }
        let per_res = ctx.n(150_000, 4_000_000) / threads as u64 + 1;
        for res in (exhaustive_to + 1)..=28 {
            for i in 0..per_res {
                let k = (i as usize * threads + w) % 60;
                let pat = gen::S_PATTERNS[(i as usize / 60 + w) % gen::S_PATTERNS.len()];
                let s = gen::s_pattern(&mut rng, (res - 1) as u32, pat);
                if i % 2 == 1 {
                    // history: the geometry of a 'twin' (same resolution and curve position on another face / quintant, hence
                    // possibly another curve orientation) is asked for immediately before - a result must not depend on it
                    let t = rng.usize(60);
                    let twin = MCell::new(res, (t / 5) as u8, (t % 5) as u8, s);
                    let _ = cell_polygon(twin);
                    let _ = centre_unit(encode(twin));
                    run.count("stratified.primed_with_twin");
                } else if i % 4 == 2 {
                    // a relative, or the revisit pattern (parent, others, parent), immediately before
                    prime_history(&mut rng, MCell::new(res, (k / 5) as u8, (k % 5) as u8, s));
                    run.count("stratified.primed_with_relative_or_revisit");
                }
                check_parent(run, MCell::new(res, (k / 5) as u8, (k % 5) as u8, s), "stratified");
                run.count(&format!("stratified.res{res:02}"));
                run.count(&format!("stratified.face{:02}.quintant{}", k / 5, k % 5));
            }
        }
    });
    // parents at the hostile places (face edges and their vicinity, dodecahedron vertices, face centres, poles, the rings where
    // the projection switches formulas), found by lookups
    let hostile = parallel(threads, |w, run| {
        let mut rng = ctx.rng("C12.hostile", w);
        let fr = gen::Frame::new();
        let n = ctx.n(80_000, 3_000_000) / threads as u64;
        for _ in 0..n {
            let class = *rng.pick(&["seam", "seam", "dvertex", "edgemid", "fcentre", "polar", "polar", "switch", "tseam", "antimeridian"]);
            let (lon, lat) = gen::point(&mut rng, &fr, class);
            let res = (gen::random_res(&mut rng)).min(28);
            if let Some(c) = lookup(lon, lat, res).ok().and_then(decode) {
                check_parent(run, c, class);
                run.count(&format!("class.{class}"));
            }
        }
    });
    out.merge(hostile);
    for res in 0..=exhaustive_to {
        if out.counters.get(&format!("exhaustive.res{res:02}")).copied().unwrap_or(0) as u128 != num_cells(res) {
            out.inconclusive(format!("exhaustive pass did not visit every cell of resolution {res}"));
        }
    }
    out.note(format!("exhaustive: every parent of resolution 0..={exhaustive_to}; every face x quintant (all 6 curve orientations) at every resolution up to 28"));
    out
}

fn replay(check: &str, case: &Value, run: &mut Run) -> Option<()> {
    if !check.starts_with("C12.") {
        return None;
    }
    let c = decode(parse_hex_u64(case.get("cell")?)?)?;
    check_parent(run, c, "replay");
    println!("replay: parent {} re-checked: margins {:?}", hu(encode(c)), run.margins.iter().map(|(k, v)| (k.clone(), v.0)).collect::<Vec<_>>());
    Some(())
}
