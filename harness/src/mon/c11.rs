//! C11 — cell boundary is a well-formed ring around the cell centre (DESIGN §6 C11)
use crate::gen::{self, Frame};
use crate::geom::*;
use crate::model::*;
use crate::mon::Monitor;
use crate::orc::*;
use crate::report::*;
use crate::rng::mix;
use crate::Ctx;
use a5::core::cell::CellToBoundaryOptions;
use serde_json::{json, Value};

pub const MONITOR: Monitor = Monitor {
    id: "C11",
    rule: "one evaluation = one cell_to_boundary(cell, {closed, segments}) call: length = vertices*n (+1 closed), first = last when \
           closed, finite, |lat| <= 90, counter-clockwise (positive spherical area), winding number 1 about the reported centre, \
           longitudes within a 180 degree window unless the ring touches or encloses a pole, corner points physically identical to those of \
           segments = 1; non-trivial = distinct (cell, n, closed) with n >= 2 or a cell of a hostile class (antimeridian, polar, seam, vertex)",
    run,
    replay,
};

const POLES: [V3; 2] = [[0.0, 0.0, 1.0], [0.0, 0.0, -1.0]];

pub fn check_ring(run: &mut Run, c: MCell, segments: Option<i32>, closed: bool, class: &str) {
    run.evaluations += 1;
    let id = encode(c);
    let case = || json!({"cell": hu(id), "res": c.res, "segments": segments, "closed": closed, "class": class});
    let ring = match flatten(guard(|| a5::cell_to_boundary(id, Some(CellToBoundaryOptions { closed_ring: closed, segments })))) {
        Ok(r) => r,
        Err(e) => {
            run.violation("C11.ok", case(), format!("cell_to_boundary failed on a valid cell: {e}"));
            return;
        }
    };
    let nv = if c.res == 1 { 3 } else { 5 };
    // with the resolution-dependent default the subdivision is whatever the library chose: it must be a whole number >= 1
    let n = match segments {
        Some(n) => n as usize,
        None => {
            let body = ring.len().saturating_sub(closed as usize);
            if body < nv || body % nv != 0 {
                run.violation("C11.length", case(), format!("{} points with the default subdivision: not a multiple of {nv}{}", ring.len(), if closed { " plus 1" } else { "" }));
                return;
            }
            if body / nv != 1.max(1usize << (6 - c.res).max(0)) {
                run.count("default_subdivision_differs_from_2^(6-res)");
            }
            body / nv
        }
    };
    let want_len = nv * n + closed as usize;
    if ring.len() != want_len {
        run.violation("C11.length", case(), format!("{} points, expected {nv} x {n}{}", ring.len(), if closed { " + 1" } else { "" }));
        return;
    }
    if let Some(bad) = ring.iter().find(|p| !p.longitude().is_finite() || !p.latitude().is_finite()) {
        run.violation("C11.finite", case(), format!("non-finite coordinate ({}, {})", bad.longitude(), bad.latitude()));
        return;
    }
    let max_lat = ring.iter().map(|p| p.latitude().abs()).fold(0.0, f64::max);
    if run.margin("latitude_excess_deg", max_lat - 90.0, 1e-9, case) {
        run.violation("C11.latitude", case(), format!("latitude {max_lat} outside [-90, 90]"));
    }
    if closed {
        let (a, b) = (ring[0], ring[ring.len() - 1]);
        if a.longitude().to_bits() != b.longitude().to_bits() || a.latitude().to_bits() != b.latitude().to_bits() {
            run.violation("C11.closed", case(), "closed ring does not repeat its first point".to_string());
        }
    }
    let open = &ring[..nv * n];
    let units: Vec<V3> = open.iter().map(|p| unit_from_lonlat(p.longitude(), p.latitude())).collect();
    let l = cell_size(c.res);
    // orientation
    let area = ring_area(&units, c.res);
    let want = 4.0 * std::f64::consts::PI / num_cells(c.res) as f64;
    if !(area > 0.0) {
        run.violation("C11.orientation", case(), format!("ring is not counter-clockwise: signed area {:.3e} sr (cell area {:.3e})", area, want));
    } else {
        // a ring that folds over itself loses area even though its sign stays positive (coarse bound, C04 owns the fine one)
        run.margin("area_deficit_fraction", 1.0 - area / want, 0.35, case);
        if area / want < 0.65 || area / want > 1.35 {
            run.violation("C11.orientation", case(), format!("ring area {:.3e} sr is not the area of a cell of resolution {} ({:.3e}): degenerate or folded ring", area, c.res, want));
        }
    }
    // centre inside: winding number 1
    match centre_unit(id) {
        Ok(cu) => match winding_about(&units, cu) {
            Some(1) => {}
            other => run.violation("C11.centre_inside", case(), format!("winding number of the ring about the reported centre is {:?}, expected 1", other)),
        },
        Err(e) => run.violation("C11.ok", case(), format!("cell_to_lonlat failed: {e}")),
    }
    // longitude window unless the ring touches or encloses a pole
    let touches = POLES.iter().any(|p| {
        let near = units.iter().any(|u| dot(*u, *p) > 0.0) && ring_min_dist(&units, *p) <= (1e-9f64).max(1e-6 * l);
        near || (dot(centroid_dir(&units), *p) > 0.0 && winding_about(&units, *p).map(|w| w != 0).unwrap_or(true))
    });
    let (lo, hi) = open.iter().fold((f64::INFINITY, f64::NEG_INFINITY), |(lo, hi), p| (lo.min(p.longitude()), hi.max(p.longitude())));
    if touches {
        run.count("rings_touching_or_enclosing_a_pole");
    } else {
        if run.margin("longitude_span_deg", hi - lo, 180.0 - 1e-9, case) {
            run.violation("C11.longitude_window", case(), format!("longitudes span {} degrees ({lo} .. {hi}) although the ring does not touch a pole", hi - lo));
        }
        if lo < -180.0 || hi > 180.0 {
            run.count("rings_unwrapped_across_antimeridian");
        }
    }
    // corners are the same physical points for every n
    if n > 1 {
        match flatten(guard(|| a5::cell_to_boundary(id, Some(CellToBoundaryOptions { closed_ring: false, segments: Some(1) })))) {
            Ok(corners) => {
                let mut worst = 0.0f64;
                for k in &corners {
                    let ku = unit_from_lonlat(k.longitude(), k.latitude());
                    let d = units.iter().map(|u| chord_angle(*u, ku)).fold(f64::INFINITY, f64::min);
                    worst = worst.max(d);
                }
                if corners.len() != nv {
                    run.violation("C11.length", case(), format!("{} corners with segments = 1", corners.len()));
                } else if run.margin("corner_displacement_rad", worst, 1e-12, case) {
                    run.violation("C11.corners", case(), format!("a corner of the segments=1 ring is {:.3e} rad away from every point of the segments={n} ring", worst));
                }
            }
            Err(e) => run.violation("C11.ok", case(), format!("cell_to_boundary(segments=1) failed: {e}")),
        }
    }
    // no options at all = closed ring with the default subdivision
    if segments.is_none() && closed {
        match flatten(guard(|| a5::cell_to_boundary(id, None))) {
            Ok(r2) => {
                let same = r2.len() == ring.len() && r2.iter().zip(ring.iter()).all(|(a, b)| a.longitude().to_bits() == b.longitude().to_bits() && a.latitude().to_bits() == b.latitude().to_bits());
                if !same {
                    run.violation("C11.default_options", case(), format!("cell_to_boundary(c, None) ({} points) differs from the explicit default options ({} points)", r2.len(), ring.len()));
                }
                run.count("rings_with_no_options_at_all");
                // and the same for an accepted non-canonical spelling of the cell (one stray bit below the marker): the default
                // subdivision is a function of the cell, not of how its id is written
                let mut arng = crate::rng::Rng::stream(id, "C11.alias", 0);
                if let Some(w) = stray_alias(&mut arng, c) {
                    if let Ok(r3) = flatten(guard(|| a5::cell_to_boundary(w, None))) {
                        run.count("rings_with_no_options_for_an_alias_spelling");
                        let same = r3.len() == r2.len() && r3.iter().zip(r2.iter()).all(|(a, b)| a.longitude().to_bits() == b.longitude().to_bits() && a.latitude().to_bits() == b.latitude().to_bits());
                        if !same {
                            run.violation("C11.alias_default", json!({"cell": hu(id), "alias": hu(w), "res": c.res}), format!("cell_to_boundary({}, None) ({} points) differs from the ring of the cell it is a spelling of, {} ({} points)", hu(w), r3.len(), hu(id), r2.len()));
                        }
                    }
                }
            }
            Err(e) => run.violation("C11.ok", case(), format!("cell_to_boundary(c, None) failed: {e}")),
        }
    }
    if n >= 2 || class != "exhaustive" {
        run.nontrivial(mix(mix(id, n as u64), closed as u64));
    }
    if run.wants_sample(class) {
        run.sample(class, || json!({"cell": hu(id), "res": c.res, "segments": n, "closed": closed, "points": ring.len(), "first": [ring[0].longitude(), ring[0].latitude()], "lon_window": [lo, hi], "touches_pole": touches, "signed_area_sr": area}));
    }
}

fn run(ctx: &Ctx) -> Run {
    silence_panics();
    let threads = ctx.threads;
    let exhaustive_to: i32 = if ctx.quick() { 3 } else { 5 };
    let mut out = parallel(threads, |w, run| {
        let mut rng = ctx.rng("C11", w);
        let fr = Frame::new();
        for res in 0..=exhaustive_to {
            for (k, c) in children_at(WORLD, res).into_iter().enumerate() {
                if k % threads != w {
                    continue;
                }
                for seg in [Some(1), Some(2), Some(3), Some(7), Some(16), Some(64), None] {
                    check_ring(run, c, seg, true, "exhaustive");
                    check_ring(run, c, seg, false, "exhaustive");
                }
                run.count(&format!("exhaustive.res{res:02}"));
            }
        }
        let n = ctx.n(600_000, 24_000_000) / threads as u64;
        for i in 0..n {
            let res = gen::random_res(&mut rng);
            let (c, class) = if i % 5 == 0 {
                (gen::random_cell(&mut rng, res), "constructed")
            } else {
                let class = *rng.pick(&["polar", "polar", "antimeridian", "antimeridian", "seam", "dvertex", "fcentre", "tseam", "uniform"]);
                let (lon, lat) = gen::point(&mut rng, &fr, class);
                match lookup(lon, lat, res).ok().and_then(decode) {
                    Some(c) => (c, class),
                    None => continue,
                }
            };
            // (small subdivisions as often as the whole range: a ring with few points per edge splits differently across a seam)
            let seg = if rng.chance(0.15) { None } else if rng.chance(0.4) { Some(1 + rng.below(5) as i32) } else { Some(1 + rng.below(64) as i32) };
            let closed = rng.chance(0.5);
            if i % 3 == 1 {
                prime_history_with(&mut rng, c, seg, closed);
                run.count("primed_with_a_relative");
            }
            check_ring(run, c, seg, closed, class);
            run.count(&format!("class.{class}"));
            run.count(&format!("res.{res:02}"));
        }
        // polar cap x seam meridians: cells within 1e-7 .. 0.05 degrees of a pole that straddle (or sit next to) a meridian on
        // which some representation of longitude has its seam, every small subdivision, closed and open
        let n = ctx.n(24_000, 1_000_000) / threads as u64;
        for _ in 0..n {
            let res = 8 + rng.below(22) as i32;
            let colat = 10f64.powf(rng.range(-7.0, -1.3));
            let meridian = *rng.pick(&[180.0, -180.0, -93.0, 87.0, 0.0, 90.0, -90.0]);
            // offsets up to a few cell widths at that colatitude (in degrees of longitude)
            let width = (cell_size(res) / colat.to_radians().sin().max(1e-12)).to_degrees();
            let lon = meridian + if rng.chance(0.3) { 0.0 } else { rng.range(-2.0, 2.0) * width };
            let lat = (90.0 - colat) * rng.sign();
            if let Some(c) = lookup(lon, lat, res).ok().and_then(decode) {
                for seg in 1..=5 {
                    check_ring(run, c, Some(seg), seg % 2 == 0, "polar_seam_meridian");
                }
                check_ring(run, c, None, true, "polar_seam_meridian");
                run.count("class.polar_seam_meridian");
            }
        }
        if w == 0 {
            // cells at the exact poles and the known D5 region, all fine resolutions
            for res in 0..=29 {
                for (lon, lat) in [(0.0, 90.0), (100.0, -90.0), (-94.00024804929757, -89.9999999998154), (33.0, 89.99999995), (179.99999999, 0.0), (-180.0, 45.0), (180.0, -63.0)] {
                    if let Some(c) = lookup(lon, lat, res).ok().and_then(decode) {
                        for seg in [Some(1), Some(5), None] {
                            check_ring(run, c, seg, true, "corpus");
                        }
                    }
                }
            }
        }
    });
    for class in ["polar", "antimeridian", "seam", "dvertex", "constructed"] {
        if out.counters.get(&format!("class.{class}")).copied().unwrap_or(0) == 0 {
            out.inconclusive(format!("cell class {class} was not exercised"));
        }
    }
    if out.counters.get("rings_touching_or_enclosing_a_pole").copied().unwrap_or(0) == 0 || out.counters.get("rings_unwrapped_across_antimeridian").copied().unwrap_or(0) == 0 {
        out.inconclusive("no pole-touching or no antimeridian-crossing ring was observed".to_string());
    }
    out.note(format!("exhaustive: every cell of resolution 0..={exhaustive_to} x segments in (1,2,3,7,16,64,default) x closed/open"));
    out
}

fn replay(check: &str, case: &Value, run: &mut Run) -> Option<()> {
    if !check.starts_with("C11.") {
        return None;
    }
    let c = decode(parse_hex_u64(case.get("cell")?)?)?;
    let seg = case.get("segments").and_then(|s| s.as_i64()).map(|s| s as i32);
    let closed = case.get("closed").and_then(|b| b.as_bool()).unwrap_or(true);
    check_ring(run, c, seg, closed, "replay");
    println!("replay: cell_to_boundary({}, segments {:?}, closed {closed}) re-checked", hu(encode(c)), seg);
    Some(())
}
