//! Call descriptors: one value = one call of the library with its arguments as bit patterns. Used for the event
//! logs of C13 (per-thread histories compared bit for bit) and C14 (call/return log of the sandboxed child).

use crate::gen;
use crate::model::*;
use crate::orc::guard;
use crate::rng::Rng;
use a5::coordinate_systems::{Face, LonLat, Radians, Spherical};
use a5::core::cell::CellToBoundaryOptions;
use a5::projections::dodecahedron::DodecahedronProjection;

#[derive(Clone, Debug, PartialEq)]
pub enum Call {
    Lookup { lon: f64, lat: f64, res: i32 },
    CellToLonLat(u64),
    Boundary { id: u64, closed: bool, segments: Option<i32> },
    Parent { id: u64, res: Option<i32> },
    Children { id: u64, res: Option<i32> },
    GetResolution(u64),
    NumCells(i32),
    CellArea(i32),
    Compact(Vec<u64>),
    Uncompact(Vec<u64>, i32),
    HexToU64(String),
    U64ToHex(u64),
    Res0,
    /// internal: DodecahedronProjection::forward(Spherical{theta, phi}, face)
    Forward { theta: f64, phi: f64, face: u8 },
    /// internal: DodecahedronProjection::inverse(Face{x, y}, face)
    Inverse { x: f64, y: f64, face: u8 },
    /// internal: the generic PolyhedralProjection::inverse with an octant triangle (not one of the dodecahedron's), as the
    /// repository's own tests use it
    GenericInverse { x: f64, y: f64 },
    /// two public calls in one logged step: cell_to_boundary(id, segments = 1) and then lonlat_to_cell of its k-th corner at `res`
    /// (exact cell corners are where the lookup's search takes its rarely used branches)
    LookupAtCorner { id: u64, k: u8, res: i32 },
    /// internal: a5cell_contains_point on a malformed cell description (curve position out of range for its resolution, or an
    /// absurd resolution); whatever it does - error or panic - it must not affect later calls
    ContainsMalformed { kind: u8 },
}

#[derive(Clone, Debug, PartialEq)]
pub enum Outcome {
    /// result as bit patterns (ids, f64 bits, lengths)
    Ok(Vec<u64>),
    Err(String),
    Panic(String),
}

fn opt(o: &Option<i32>) -> String {
    match o {
        None => "none".to_string(),
        Some(v) => format!("some:{v}"),
    }
}
fn parse_opt(s: &str) -> Option<Option<i32>> {
    if s == "none" {
        Some(None)
    } else {
        s.strip_prefix("some:")?.parse().ok().map(Some)
    }
}
fn fb(x: f64) -> String {
    format!("f:{:016x}", x.to_bits())
}
fn parse_fb(s: &str) -> Option<f64> {
    u64::from_str_radix(s.strip_prefix("f:")?, 16).ok().map(f64::from_bits)
}
fn ub(x: u64) -> String {
    format!("0x{x:016x}")
}
fn parse_ub(s: &str) -> Option<u64> {
    u64::from_str_radix(s.strip_prefix("0x")?, 16).ok()
}
fn list(v: &[u64]) -> String {
    format!("[{}]", v.iter().map(|x| ub(*x)).collect::<Vec<_>>().join(","))
}
fn parse_list(s: &str) -> Option<Vec<u64>> {
    let inner = s.strip_prefix('[')?.strip_suffix(']')?;
    if inner.is_empty() {
        return Some(Vec::new());
    }
    inner.split(',').map(parse_ub).collect()
}

impl Call {
    pub fn name(&self) -> &'static str {
        match self {
            Call::Lookup { .. } => "lonlat_to_cell",
            Call::CellToLonLat(_) => "cell_to_lonlat",
            Call::Boundary { .. } => "cell_to_boundary",
            Call::Parent { .. } => "cell_to_parent",
            Call::Children { .. } => "cell_to_children",
            Call::GetResolution(_) => "get_resolution",
            Call::NumCells(_) => "get_num_cells",
            Call::CellArea(_) => "cell_area",
            Call::Compact(_) => "compact",
            Call::Uncompact(..) => "uncompact",
            Call::HexToU64(_) => "hex_to_u64",
            Call::U64ToHex(_) => "u64_to_hex",
            Call::Res0 => "get_res0_cells",
            Call::Forward { .. } => "forward",
            Call::Inverse { .. } => "inverse",
            Call::GenericInverse { .. } => "generic_inverse",
            Call::ContainsMalformed { .. } => "contains_malformed",
            Call::LookupAtCorner { .. } => "lonlat_to_cell",
        }
    }

    pub fn to_text(&self) -> String {
        match self {
            Call::Lookup { lon, lat, res } => format!("lonlat_to_cell {} {} {res}", fb(*lon), fb(*lat)),
            Call::CellToLonLat(id) => format!("cell_to_lonlat {}", ub(*id)),
            Call::Boundary { id, closed, segments } => format!("cell_to_boundary {} {} {}", ub(*id), closed, opt(segments)),
            Call::Parent { id, res } => format!("cell_to_parent {} {}", ub(*id), opt(res)),
            Call::Children { id, res } => format!("cell_to_children {} {}", ub(*id), opt(res)),
            Call::GetResolution(id) => format!("get_resolution {}", ub(*id)),
            Call::NumCells(r) => format!("get_num_cells {r}"),
            Call::CellArea(r) => format!("cell_area {r}"),
            Call::Compact(v) => format!("compact {}", list(v)),
            Call::Uncompact(v, r) => format!("uncompact {} {r}", list(v)),
            Call::HexToU64(s) => format!("hex_to_u64 s:{}", s.bytes().map(|b| format!("{b:02x}")).collect::<String>()),
            Call::U64ToHex(x) => format!("u64_to_hex {}", ub(*x)),
            Call::Res0 => "get_res0_cells".to_string(),
            Call::Forward { theta, phi, face } => format!("forward {} {} {face}", fb(*theta), fb(*phi)),
            Call::Inverse { x, y, face } => format!("inverse {} {} {face}", fb(*x), fb(*y)),
            Call::GenericInverse { x, y } => format!("generic_inverse {} {}", fb(*x), fb(*y)),
            Call::ContainsMalformed { kind } => format!("contains_malformed {kind}"),
            Call::LookupAtCorner { id, k, res } => format!("lookup_at_corner {} {k} {res}", ub(*id)),
        }
    }

    pub fn from_text(s: &str) -> Option<Call> {
        let t: Vec<&str> = s.split_whitespace().collect();
        Some(match *t.first()? {
            "lonlat_to_cell" => Call::Lookup { lon: parse_fb(t.get(1)?)?, lat: parse_fb(t.get(2)?)?, res: t.get(3)?.parse().ok()? },
            "cell_to_lonlat" => Call::CellToLonLat(parse_ub(t.get(1)?)?),
            "cell_to_boundary" => Call::Boundary { id: parse_ub(t.get(1)?)?, closed: t.get(2)?.parse().ok()?, segments: parse_opt(t.get(3)?)? },
            "cell_to_parent" => Call::Parent { id: parse_ub(t.get(1)?)?, res: parse_opt(t.get(2)?)? },
            "cell_to_children" => Call::Children { id: parse_ub(t.get(1)?)?, res: parse_opt(t.get(2)?)? },
            "get_resolution" => Call::GetResolution(parse_ub(t.get(1)?)?),
            "get_num_cells" => Call::NumCells(t.get(1)?.parse().ok()?),
            "cell_area" => Call::CellArea(t.get(1)?.parse().ok()?),
            "compact" => Call::Compact(parse_list(t.get(1)?)?),
            "uncompact" => Call::Uncompact(parse_list(t.get(1)?)?, t.get(2)?.parse().ok()?),
            "hex_to_u64" => {
                let h = t.get(1)?.strip_prefix("s:")?;
                let bytes: Option<Vec<u8>> = (0..h.len() / 2).map(|i| u8::from_str_radix(&h[2 * i..2 * i + 2], 16).ok()).collect();
                Call::HexToU64(String::from_utf8(bytes?).ok()?)
            }
            "u64_to_hex" => Call::U64ToHex(parse_ub(t.get(1)?)?),
            "get_res0_cells" => Call::Res0,
            "forward" => Call::Forward { theta: parse_fb(t.get(1)?)?, phi: parse_fb(t.get(2)?)?, face: t.get(3)?.parse().ok()? },
            "inverse" => Call::Inverse { x: parse_fb(t.get(1)?)?, y: parse_fb(t.get(2)?)?, face: t.get(3)?.parse().ok()? },
            "generic_inverse" => Call::GenericInverse { x: parse_fb(t.get(1)?)?, y: parse_fb(t.get(2)?)? },
            "contains_malformed" => Call::ContainsMalformed { kind: t.get(1)?.parse().ok()? },
            "lookup_at_corner" => Call::LookupAtCorner { id: parse_ub(t.get(1)?)?, k: t.get(2)?.parse().ok()?, res: t.get(3)?.parse().ok()? },
            _ => return None,
        })
    }

    /// execute against the library; a panic is caught and reported as an outcome
    pub fn exec(&self) -> Outcome {
        let r: Result<Result<Vec<u64>, String>, String> = guard(|| match self {
            Call::Lookup { lon, lat, res } => a5::lonlat_to_cell(LonLat::new(*lon, *lat), *res).map(|id| vec![id]),
            Call::CellToLonLat(id) => a5::cell_to_lonlat(*id).map(|p| vec![p.longitude().to_bits(), p.latitude().to_bits()]),
            Call::Boundary { id, closed, segments } => a5::cell_to_boundary(*id, Some(CellToBoundaryOptions { closed_ring: *closed, segments: *segments }))
                .map(|v| v.iter().flat_map(|p| [p.longitude().to_bits(), p.latitude().to_bits()]).collect()),
            Call::Parent { id, res } => a5::cell_to_parent(*id, *res).map(|p| vec![p]),
            Call::Children { id, res } => a5::cell_to_children(*id, *res),
            Call::GetResolution(id) => Ok(vec![a5::get_resolution(*id) as i64 as u64]),
            Call::NumCells(r) => Ok(vec![a5::get_num_cells(*r)]),
            Call::CellArea(r) => Ok(vec![a5::cell_area(*r).to_bits()]),
            Call::Compact(v) => a5::compact(v),
            Call::Uncompact(v, r) => a5::uncompact(v, *r),
            Call::HexToU64(s) => a5::hex_to_u64(s).map(|x| vec![x]),
            Call::U64ToHex(x) => Ok(a5::u64_to_hex(*x).bytes().map(|b| b as u64).collect()),
            Call::Res0 => a5::get_res0_cells(),
            Call::Forward { theta, phi, face } => DodecahedronProjection::get_thread_local()
                .forward(Spherical::new(Radians::new_unchecked(*theta), Radians::new_unchecked(*phi)), *face)
                .map(|f| vec![f.x().to_bits(), f.y().to_bits()]),
            Call::Inverse { x, y, face } => DodecahedronProjection::get_thread_local().inverse(Face::new(*x, *y), *face).map(|s| vec![s.theta().get().to_bits(), s.phi().get().to_bits()]),
            Call::LookupAtCorner { id, k, res } => a5::cell_to_boundary(*id, Some(CellToBoundaryOptions { closed_ring: false, segments: Some(1) })).and_then(|ring| {
                if ring.is_empty() {
                    return Ok(vec![0]);
                }
                let p = ring[*k as usize % ring.len()];
                a5::lonlat_to_cell(p, *res).map(|x| vec![x])
            }),
            Call::ContainsMalformed { kind } => {
                let cell = match kind {
                    0 => a5::A5Cell { origin_id: 3, segment: 2, s: 1 << 40, resolution: 5 },
                    1 => a5::A5Cell { origin_id: 3, segment: 2, s: 0, resolution: 2000 },
                    _ => a5::A5Cell { origin_id: 200, segment: 9, s: 7, resolution: 4 },
                };
                a5::core::cell::a5cell_contains_point(&cell, LonLat::new(10.0, 20.0)).map(|v| vec![v.to_bits()])
            }
            Call::GenericInverse { x, y } => {
                use a5::coordinate_systems::{Cartesian, FaceTriangle, SphericalTriangle};
                let ft = FaceTriangle::new(Face::new(0.0, 0.0), Face::new(1.0, 0.0), Face::new(0.0, 1.0));
                let st = SphericalTriangle::new(Cartesian::new(1.0, 0.0, 0.0), Cartesian::new(0.0, 1.0, 0.0), Cartesian::new(0.0, 0.0, 1.0));
                let c = a5::projections::polyhedral::PolyhedralProjection::new().inverse(Face::new(*x, *y), ft, st);
                Ok(vec![c.x().to_bits(), c.y().to_bits(), c.z().to_bits()])
            }
        });
        match r {
            Ok(Ok(v)) => Outcome::Ok(v),
            Ok(Err(e)) => Outcome::Err(e),
            Err(p) => Outcome::Panic(p),
        }
    }
}

impl Outcome {
    pub fn kind(&self) -> &'static str {
        match self {
            Outcome::Ok(_) => "ok",
            Outcome::Err(_) => "err",
            Outcome::Panic(_) => "panic",
        }
    }
    /// 64-bit digest for bitwise comparison of results (Err compares by message, Panic by message)
    pub fn digest(&self) -> u64 {
        let mut h = match self {
            Outcome::Ok(_) => 1u64,
            Outcome::Err(_) => 2,
            Outcome::Panic(_) => 3,
        };
        match self {
            Outcome::Ok(v) => {
                h = crate::rng::mix(h, v.len() as u64);
                for x in v {
                    h = crate::rng::mix(h, *x);
                }
            }
            Outcome::Err(s) | Outcome::Panic(s) => {
                for b in s.bytes() {
                    h = crate::rng::mix(h, b as u64);
                }
            }
        }
        h
    }
    pub fn short(&self) -> String {
        match self {
            Outcome::Ok(v) => format!("ok n={} {}", v.len(), v.iter().take(4).map(|x| format!("{x:016x}")).collect::<Vec<_>>().join(" ")),
            Outcome::Err(e) => format!("err {}", e.replace('\n', " ")),
            Outcome::Panic(e) => format!("panic {}", e.replace('\n', " ")),
        }
    }
}

// ------------------------------------------------------------------------------------------------
// C14: hostile call generation and validity oracle

fn hostile_ids(rng: &mut Rng) -> u64 {
    let class = *rng.pick(&gen::HOSTILE_ID_CLASSES);
    gen::hostile_id(rng, class)
}

/// largest honest result a hierarchy call may have for it to be generated at all (4^8 cells)
pub const MAX_HONEST: u128 = 1 << 16;

/// the i-th hostile call of the stream `seed` (deterministic, so a restarted child continues where the dead one stopped)
pub fn hostile_call(seed: u64, index: u64) -> Call {
    let mut rng = Rng::stream(seed, "C14", index);
    let rng = &mut rng;
    match rng.below(16) {
        0 | 1 => {
            let (lon, lat) = gen::hostile_coord(rng);
            Call::Lookup { lon, lat, res: gen::hostile_res(rng) }
        }
        14 => {
            // ordinary coordinates at the geometric loci (exact poles, seams, vertices, face centres, special meridians) with a
            // valid resolution: what a debug assertion about a 'cannot happen' rounding case would trip over
            thread_local! { static FRAME: gen::Frame = gen::Frame::new(); }
            let class = *rng.pick(&gen::POINT_CLASSES);
            let (lon, lat) = FRAME.with(|fr| gen::point(rng, fr, class));
            Call::Lookup { lon, lat, res: rng.below(30) as i32 }
        }
        15 => {
            let r = rng.below(30) as i32;
            let c = gen::random_cell(rng, r);
            let res = if rng.chance(0.7) { (r + rng.below(3) as i32 - 1).clamp(0, MAX_RES) } else { gen::hostile_res(rng) };
            Call::LookupAtCorner { id: encode(c), k: rng.below(5) as u8, res }
        }
        2 => Call::CellToLonLat(hostile_ids(rng)),
        3 => {
            let segments = match rng.below(3) {
                0 => None,
                _ => Some(1 + rng.below(8) as i32),
            };
            Call::Boundary { id: hostile_ids(rng), closed: rng.chance(0.5), segments }
        }
        4 => {
            let id = hostile_ids(rng);
            let res = if rng.chance(0.2) { None } else { Some(gen::hostile_res(rng)) };
            Call::Parent { id, res }
        }
        5 | 6 => {
            let id = hostile_ids(rng);
            let from = alias_resolution(id);
            let res = if rng.chance(0.25) {
                None
            } else {
                let mut r = gen::hostile_res(rng);
                // keep the honest fan-out bounded: in-range targets deeper than 8 levels are pulled up
                if (from..=MAX_RES).contains(&r) && fanout(from, r) > MAX_HONEST {
                    r = from + rng.below(9) as i32;
                    while fanout(from, r) > MAX_HONEST {
                        r -= 1;
                    }
                }
                Some(r)
            };
            Call::Children { id, res }
        }
        7 => Call::GetResolution(hostile_ids(rng)),
        8 => Call::NumCells(gen::hostile_res(rng)),
        9 => Call::CellArea(gen::hostile_res(rng)),
        10 if rng.chance(0.25) => {
            // a perfectly valid set between hostile calls (its result is judged with C08's coverage oracle)
            let flavour = *rng.pick(&["antichain", "lowres", "complete"]);
            Call::Compact(gen::cell_set(rng, flavour).iter().take(300).map(|c| encode(*c)).collect())
        }
        10 => {
            let n = rng.below(24) as usize;
            let mut v: Vec<u64> = Vec::new();
            if rng.chance(0.4) {
                // a nearly complete sibling group with hostile ids mixed in, so that the merge loop is entered
                let r = rng.below(30) as i32;
                let c = gen::random_cell(rng, r);
                if let Some(p) = parent_at(c, c.res - 1) {
                    v.extend(children_at(p, c.res).into_iter().map(encode));
                }
            }
            for _ in 0..n {
                v.push(hostile_ids(rng));
            }
            if rng.chance(0.3) {
                // arithmetic progressions starting at a face / quintant field beyond the last face
                let start = gen::hostile_id(rng, "badtop6");
                let stride = 1u64 << 58;
                for j in 0..12u64 {
                    v.push(start.wrapping_add(j.wrapping_mul(stride)));
                }
            }
            if rng.chance(0.3) {
                // a complete, stride-aligned sibling group of non-cells: a valid group moved onto a face that does not exist
                let r = rng.below(30) as i32;
                let c = gen::random_cell(rng, r);
                if let Some(p) = parent_at(c, c.res - 1) {
                    let shift: u64 = if r == 0 { 12 * (1 + rng.below(4)) } else { 60 + rng.below(4) };
                    for k in children_at(p, c.res) {
                        let w = encode(k);
                        let top6 = if r == 0 { (w >> 58) + shift } else { shift };
                        v.push((w & ((1u64 << 58) - 1)) | ((top6 & 63) << 58));
                    }
                }
            }
            rng.shuffle(&mut v);
            Call::Compact(v)
        }
        11 if rng.chance(0.008) => {
            // a perfectly valid long list: thousands of cells of the target resolution and ONE much coarser cell, placed first,
            // last or in the middle. The honest result stays below 4^8 cells; an output buffer sized from one element of the list
            // times its length does not (and a 2 GiB address space then aborts the process)
            let target = 10 + rng.below(20) as i32;
            let depth = 5 + rng.below(3) as i32;
            let coarse = gen::random_cell(rng, target - depth);
            let len = 1000 + rng.below((MAX_HONEST - fanout(coarse.res, target) - 1000) as u64) as usize;
            let root = gen::random_cell(rng, target - 8);
            let mut v: Vec<u64> = children_at(root, target).into_iter().take(len).map(encode).collect();
            let at = match rng.below(3) {
                0 => 0,
                1 => v.len(),
                _ => rng.usize(v.len()),
            };
            v.insert(at, encode(coarse));
            Call::Uncompact(v, target)
        }
        11 if rng.chance(0.15) => {
            // the coarsest cells in every order: the world cell and its marker-less aliases, base cells, quintants - expanded to the
            // coarsest targets (the layout regimes of resolutions -1, 0 and 1 meet here, and the order of the list must not matter)
            let n = 1 + rng.below(5) as usize;
            let mut v = Vec::new();
            for _ in 0..n {
                v.push(match rng.below(5) {
                    0 => 0,
                    1 => gen::hostile_id(rng, "worldalias"),
                    2 => encode(MCell::new(0, rng.below(12) as u8, 0, 0)),
                    3 => encode(MCell::new(1, rng.below(12) as u8, rng.below(5) as u8, 0)),
                    _ => encode(gen::random_cell(rng, 2)),
                });
            }
            Call::Uncompact(v, rng.below(5) as i32 - 1)
        }
        11 if rng.chance(0.05) => {
            // the empty list with every kind of target: "nothing to expand" must not skip the range check
            Call::Uncompact(Vec::new(), gen::hostile_res(rng))
        }
        11 => {
            let mut res = gen::hostile_res(rng);
            let n = 1 + rng.below(6) as usize;
            let mut v = Vec::new();
            let mut budget = MAX_HONEST;
            for _ in 0..n {
                let id = hostile_ids(rng);
                let from = alias_resolution(id);
                if (from..=MAX_RES).contains(&res) {
                    let f = fanout(from, res);
                    if f > budget {
                        continue;
                    }
                    budget -= f;
                }
                v.push(id);
            }
            if v.is_empty() {
                res = res.clamp(-1, 3);
            }
            Call::Uncompact(v, res)
        }
        12 => {
            if rng.chance(0.5) {
                Call::U64ToHex(hostile_ids(rng))
            } else {
                let len = rng.below(24);
                let s: String = (0..len).map(|_| *rng.pick(&['0', '1', '9', 'a', 'f', 'F', 'g', 'x', '+', '-', ' ', 'é', '٣'])).collect();
                Call::HexToU64(s)
            }
        }
        _ => Call::Res0,
    }
}

fn in_range(r: i32) -> bool {
    (-1..=MAX_RES).contains(&r)
}

/// validity oracle of C14 for a call that returned: list of (check, message)
pub fn validate(call: &Call, out: &Outcome) -> Vec<(&'static str, String)> {
    let mut bad: Vec<(&'static str, String)> = Vec::new();
    let v = match out {
        Outcome::Panic(m) => {
            bad.push(("C14.panic", format!("{} panicked: {m}", call.name())));
            return bad;
        }
        Outcome::Err(_) => {
            // an error is always an acceptable answer to a hostile argument; valid arguments are the other monitors' business,
            // except for the two cases C14 states: in-range resolution + canonical id must not be rejected by the plain accessors
            return bad;
        }
        Outcome::Ok(v) => v,
    };
    let canon_res = |id: u64| decode(id).map(|c| c.res);
    // "bit patterns that are not a cell are rejected": a word whose face / quintant field is beyond the last face aliases no cell,
    // so no call that takes one cell may answer Ok for it - whatever the other arguments are (a target of -1 included)
    match call {
        Call::CellToLonLat(id) | Call::Boundary { id, .. } | Call::Parent { id, .. } | Call::Children { id, .. } if alias_cell(*id).is_none() => {
            bad.push(("C14.accepted_non_cell", format!("{} answered Ok for {:#018x}, whose face / quintant field {} denotes no cell", call.name(), id, id >> 58)));
            return bad;
        }
        _ => {}
    }
    match call {
        Call::Lookup { res, .. } => {
            if !in_range(*res) {
                bad.push(("C14.range", format!("lonlat_to_cell accepted resolution {res} and returned {:#018x}", v[0])));
            } else if canon_res(v[0]) != Some(*res) {
                bad.push(("C14.invalid_result", format!("lonlat_to_cell(.., {res}) returned {:#018x}, which does not decode to resolution {res}", v[0])));
            }
        }
        Call::CellToLonLat(_) => {
            let (lon, lat) = (f64::from_bits(v[0]), f64::from_bits(v[1]));
            if !lon.is_finite() || !lat.is_finite() || lat.abs() > 90.0 + 1e-9 {
                bad.push(("C14.invalid_result", format!("cell_to_lonlat returned ({lon}, {lat})")));
            }
        }
        Call::Boundary { .. } => {
            for p in v.chunks(2) {
                let (lon, lat) = (f64::from_bits(p[0]), f64::from_bits(p[1]));
                if !lon.is_finite() || !lat.is_finite() || lat.abs() > 90.0 + 1e-9 {
                    bad.push(("C14.invalid_result", format!("cell_to_boundary returned a point ({lon}, {lat})")));
                    break;
                }
            }
        }
        Call::Parent { id, res } => {
            let from = alias_resolution(*id);
            let want = res.unwrap_or(from - 1);
            if !in_range(want) || want > from {
                bad.push(("C14.range", format!("cell_to_parent({:#018x} [resolution {from}], {:?}) accepted the target and returned {:#018x}", id, res, v[0])));
            } else if canon_res(v[0]) != Some(want) {
                bad.push(("C14.invalid_result", format!("cell_to_parent({:#018x}, {:?}) returned {:#018x}: not a canonical id of resolution {want}", id, res, v[0])));
            } else if let Some(a) = alias_cell(*id) {
                if decode(v[0]) != parent_at(a, want) {
                    bad.push(("C14.invalid_result", format!("cell_to_parent({:#018x}, {:?}) returned {:#018x}, the cell it aliases has ancestor {:?}", id, res, v[0], parent_at(a, want).map(encode))));
                }
            }
        }
        Call::Children { id, res } => {
            let from = alias_resolution(*id);
            let want = res.unwrap_or(from + 1);
            if !in_range(want) || want < from {
                bad.push(("C14.range", format!("cell_to_children({:#018x} [resolution {from}], {:?}) accepted the target and returned {} ids", id, res, v.len())));
            } else {
                if let Some(b) = v.iter().find(|k| canon_res(**k) != Some(want)) {
                    bad.push(("C14.invalid_result", format!("cell_to_children({:#018x}, {:?}) returned {:#018x}: not a canonical id of resolution {want}", id, res, b)));
                } else if v.len() as u128 != fanout(from, want) {
                    bad.push(("C14.invalid_result", format!("cell_to_children({:#018x}, {:?}) returned {} ids, the hierarchy has {}", id, res, v.len(), fanout(from, want))));
                } else if let Some(a) = alias_cell(*id) {
                    if v.iter().any(|k| decode(*k).and_then(|kc| parent_at(kc, from)) != Some(a)) {
                        bad.push(("C14.invalid_result", format!("cell_to_children({:#018x}, {:?}) returned a cell that is not a descendant of the aliased cell", id, res)));
                    }
                }
            }
        }
        Call::GetResolution(id) => {
            let r = v[0] as i64 as i32;
            if !in_range(r) {
                bad.push(("C14.invalid_result", format!("get_resolution({:#018x}) = {r}", id)));
            }
        }
        Call::NumCells(r) => {
            if in_range(*r) && *r >= 0 && ((v[0] as f64) / (num_cells(*r) as f64) - 1.0).abs() > 1e-12 {
                bad.push(("C14.invalid_result", format!("get_num_cells({r}) = {}", v[0])));
            }
        }
        Call::CellArea(r) => {
            let a = f64::from_bits(v[0]);
            if !a.is_finite() || a < 0.0 {
                bad.push(("C14.invalid_result", format!("cell_area({r}) = {a}")));
            }
        }
        Call::Compact(input) => {
            if input.iter().all(|i| is_canonical(*i)) {
                if let Some(b) = v.iter().find(|k| !is_canonical(**k)) {
                    bad.push(("C14.invalid_result", format!("compact of canonical ids returned {:#018x}", b)));
                } else if !input.is_empty() {
                    // a valid call in the middle of hostile ones must still be right: same covered set (C08's oracle)
                    let ins: Vec<MCell> = input.iter().filter_map(|i| decode(*i)).collect();
                    let outs: Vec<MCell> = v.iter().filter_map(|i| decode(*i)).collect();
                    let r = ins.iter().chain(outs.iter()).map(|c| c.res).max().unwrap_or(1).max(1);
                    if coverage(&ins, r) != coverage(&outs, r) {
                        bad.push(("C14.invalid_result", format!("compact of {} valid cells returned {} cells covering a different set", ins.len(), outs.len())));
                    }
                }
            } else if let Some(b) = v.iter().find(|k| !input.contains(k) && !is_canonical(**k)) {
                bad.push(("C14.invalid_result", format!("compact produced a new id {:#018x} that is not canonical", b)));
            }
        }
        Call::Uncompact(input, r) => {
            if !in_range(*r) {
                bad.push(("C14.range", format!("uncompact accepted target resolution {r} and returned {} ids", v.len())));
            } else if input.iter().any(|i| alias_resolution(*i) > *r) {
                bad.push(("C14.range", format!("uncompact expanded a cell finer than the target {r}")));
            } else if let Some(b) = v.iter().find(|k| canon_res(**k) != Some(*r)) {
                // (until repair F9 an element already at the target resolution was echoed as written, and this clause exempted
                // outputs that were inputs; the exemption went with the defect)
                bad.push(("C14.invalid_result", format!("uncompact(.., {r}) produced {:#018x}: not a canonical id of resolution {r}", b)));
            } else if input.iter().all(|i| is_canonical(*i)) {
                let total: u128 = input.iter().map(|i| fanout(decode(*i).unwrap().res, *r)).sum();
                if v.len() as u128 != total || v.iter().any(|k| canon_res(*k) != Some(*r)) {
                    bad.push(("C14.invalid_result", format!("uncompact of canonical ids to {r} returned {} ids, expected {total} of resolution {r}", v.len())));
                }
            }
        }
        Call::Res0 => {
            if v.len() != 12 || v.iter().any(|k| canon_res(*k) != Some(0)) {
                bad.push(("C14.invalid_result", format!("get_res0_cells returned {} ids", v.len())));
            }
        }
        Call::HexToU64(_) | Call::U64ToHex(_) | Call::Forward { .. } | Call::Inverse { .. } | Call::GenericInverse { .. } | Call::ContainsMalformed { .. } => {}
        Call::LookupAtCorner { id, res, .. } => {
            if decode(*id).map(|c| c.res >= 0).unwrap_or(false) && in_range(*res) && *res >= 0 && canon_res(v[0]) != Some(*res) {
                bad.push(("C14.invalid_result", format!("lonlat_to_cell(corner of {:#018x}, {res}) returned {:#018x}, which does not decode to resolution {res}", id, v[0])));
            }
        }
    }
    bad
}

#[cfg(test)]
mod tests {
    use super::*;
    #[test]
    fn text_round_trip() {
        for i in 0..5000 {
            let c = hostile_call(7, i);
            let t = c.to_text();
            let back = Call::from_text(&t).unwrap_or_else(|| panic!("cannot parse {t}"));
            // NaN-free by construction, so PartialEq is fine
            assert_eq!(back, c, "{t}");
        }
        let c = Call::Forward { theta: 1.25, phi: 0.5, face: 3 };
        assert_eq!(Call::from_text(&c.to_text()), Some(c));
    }
}
