//! Miri workload for C13: the one `unsafe` block of a5 (a leaked per-thread projection object handed out as
//! `&'static mut`) and the lazily initialised globals, exercised
//!  (a) by several threads started cold behind a barrier, each running a mixed sequence of public calls, and
//!  (b) by the single-thread nesting pattern lonlat_to_cell -> estimate -> contains -> get_pentagon that re-borrows the
//!      `&'static mut` several times per call.
//! Every result is compared bit for bit across threads and with the main thread. Miri itself reports undefined
//! behaviour (Stacked / Tree Borrows) and data races. Arguments: <threads> <calls per thread>.
use a5::core::cell::CellToBoundaryOptions;
use a5::coordinate_systems::{Face, LonLat};
use a5::projections::dodecahedron::DodecahedronProjection;
use std::sync::{Arc, Barrier};

fn mix(mut h: u64, v: u64) -> u64 {
    h ^= v.wrapping_add(0x9E37_79B9_7F4A_7C15).wrapping_add(h << 6).wrapping_add(h >> 2);
    h = (h ^ (h >> 30)).wrapping_mul(0xBF58_476D_1CE4_E5B9);
    h ^ (h >> 31)
}

const N_CALLS: usize = 13;
const CELL: u64 = 0x2a80000000000000;
/// digest of a rejected call (a rejection is the expected outcome of calls 10 and 12)
const REJECTED: u64 = 0xE44;

/// call number k of the fixed pool; returns a digest of the result bits
fn call(k: usize) -> u64 {
    match k % N_CALLS {
        0 => a5::lonlat_to_cell(LonLat::new(12.5, 41.9), 3).map(|id| mix(1, id)).unwrap_or(0),
        1 => a5::lonlat_to_cell(LonLat::new(-179.99, -89.9), 5).map(|id| mix(2, id)).unwrap_or(0),
        2 => a5::cell_to_lonlat(0x2a80000000000000).map(|p| mix(p.longitude().to_bits(), p.latitude().to_bits())).unwrap_or(0),
        3 => a5::cell_to_boundary(0x6300000000000000, Some(CellToBoundaryOptions { closed_ring: true, segments: Some(2) }))
            .map(|v| v.iter().fold(3, |h, p| mix(mix(h, p.longitude().to_bits()), p.latitude().to_bits())))
            .unwrap_or(0),
        4 => DodecahedronProjection::get_thread_local().inverse(Face::new(0.7, 0.1), 4).map(|s| mix(s.theta().get().to_bits(), s.phi().get().to_bits())).unwrap_or(0),
        5 => DodecahedronProjection::get_thread_local().inverse(Face::new(0.3, -0.2), 4).map(|s| mix(s.theta().get().to_bits(), s.phi().get().to_bits())).unwrap_or(0),
        6 => a5::cell_to_children(0x2a80000000000000, None).map(|v| v.iter().fold(6, |h, x| mix(h, *x))).unwrap_or(0),
        7 => a5::compact(&[0x0200000000000000, 0x0600000000000000, 0x2a80000000000000]).map(|v| v.iter().fold(7, |h, x| mix(h, *x))).unwrap_or(0),
        8 => a5::lonlat_to_cell(LonLat::new(12.5, 41.9), 7).map(|id| mix(8, id)).unwrap_or(0),
        // error paths: an expansion that is rejected half way through its list (a word with a face field beyond the last face
        // behind a valid cell), the same expansion without it, and a hierarchy call with the resolution on the wrong side;
        // nothing a rejected call did may be visible to the calls after it, in this or any other thread
        10 => {
            let r = a5::get_resolution(CELL);
            let not_a_cell = (CELL & ((1u64 << 58) - 1)) | (61u64 << 58);
            a5::uncompact(&[CELL, not_a_cell], r + 1).map(|v| v.iter().fold(10, |h, x| mix(h, *x))).unwrap_or(REJECTED)
        }
        11 => a5::uncompact(&[CELL], a5::get_resolution(CELL) + 1).map(|v| v.iter().fold(11, |h, x| mix(h, *x))).unwrap_or(0),
        12 => a5::cell_to_children(CELL, Some(a5::get_resolution(CELL) - 1)).map(|v| v.iter().fold(12, |h, x| mix(h, *x))).unwrap_or(REJECTED),
        9 => {
            let (f, s) = DodecahedronProjection::get_thread_local().verif_filled_slots();
            let _ = (f, s);
            a5::cell_to_parent(CELL, None).map(|p| mix(9, p)).unwrap_or(0)
        }
        _ => unreachable!(),
    }
}

fn main() {
    let args: Vec<String> = std::env::args().collect();
    let threads: usize = args.get(1).and_then(|s| s.parse().ok()).unwrap_or(3);
    let per: usize = args.get(2).and_then(|s| s.parse().ok()).unwrap_or(6);
    let barrier = Arc::new(Barrier::new(threads));
    let handles: Vec<_> = (0..threads)
        .map(|t| {
            let b = barrier.clone();
            std::thread::spawn(move || {
                b.wait();
                // each thread starts somewhere else in the pool so that the global tables and memo slots are first
                // touched by different calls in different threads
                (0..per).map(|i| { let k = (t * 3 + i * 7) % N_CALLS; (k, call(k)) }).collect::<Vec<_>>()
            })
        })
        .collect();
    let mut seen: [Option<u64>; N_CALLS] = [None; N_CALLS];
    let mut events = 0;
    let mut bad = 0;
    for h in handles {
        for (k, d) in h.join().expect("thread panicked") {
            events += 1;
            match seen[k] {
                None => seen[k] = Some(d),
                Some(e) if e == d => {}
                Some(e) => {
                    bad += 1;
                    println!("MISMATCH call {k}: {e:016x} vs {d:016x}");
                }
            }
        }
    }
    // the nesting pattern, and every call once more on the main thread (warm history) compared with the threads' results
    // (the revisit pattern 6, 10, 6 and 11, 10, 11 puts a rejected call between two identical accepted ones)
    for k in [8usize, 0, 8, 1, 3, 4, 5, 2, 6, 10, 6, 7, 9, 11, 10, 11, 12, 6] {
        events += 1;
        let d = call(k);
        match seen[k] {
            None => seen[k] = Some(d),
            Some(e) if e == d => {}
            Some(e) => {
                bad += 1;
                println!("MISMATCH call {k} on the main thread: {e:016x} vs {d:016x}");
            }
        }
    }
    if seen.iter().any(|s| *s == Some(0)) {
        bad += 1;
        println!("MISMATCH a call returned Err");
    }
    println!("MIRI-C13 threads={threads} events={events} mismatches={bad} distinct_calls={}", seen.iter().filter(|s| s.is_some()).count());
    if bad > 0 {
        std::process::exit(3);
    }
}
