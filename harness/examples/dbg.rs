use a5mon::model::*; use a5mon::orc::*; use a5mon::geom::*;
fn main(){
    let (lon,lat,res)=(-3.0,0.0,23);
    let id=lookup(lon,lat,res).unwrap();
    let c=decode(id).unwrap();
    let lc=a5::core::serialization::deserialize(id).unwrap();
    println!("{:x} model {:?} seg {} lib {:?}", id, c, c.segment(), lc);
    let poly=cell_polygon(c).unwrap();
    let q=project(lon,lat,c.face).unwrap();
    println!("poly {:?}\nq {:?} d {}", poly,q, convex_signed_dist(&poly,q));
    println!("area2 {}", poly_area2(&poly));
}
