pub struct Rng(pub u64);
impl Rng {
    pub fn next(&mut self) -> u64 { self.0 = self.0.wrapping_add(0x9E3779B97F4A7C15); let mut z = self.0; z = (z ^ (z >> 30)).wrapping_mul(0xBF58476D1CE4E5B9); z = (z ^ (z >> 27)).wrapping_mul(0x94D049BB133111EB); z ^ (z >> 31) }
    pub fn f(&mut self) -> f64 { (self.next() >> 11) as f64 / (1u64 << 53) as f64 }
    pub fn below(&mut self, n: u64) -> u64 { self.next() % n }
    /// uniform point on sphere as lon/lat degrees (geodetic lat taken == spherical lat; fine for sampling)
    pub fn lonlat(&mut self) -> (f64, f64) { let z = 2.0*self.f()-1.0; let lon = 360.0*self.f()-180.0; (lon, z.asin().to_degrees()) }
}

use a5::coordinate_systems::{Face, LonLat};
/// signed distance (face-plane units) of q to convex polygon `vs` (any winding): negative inside, positive outside (true euclidean distance outside)
pub fn poly_signed_dist(vs: &[Face], q: Face) -> f64 {
    let n = vs.len();
    // orientation
    let o = vs[0]; let mut area = 0.0; for i in 0..n { let a = vs[i]; let b = vs[(i+1)%n]; area += (a.x()-o.x())*(b.y()-o.y()) - (b.x()-o.x())*(a.y()-o.y()); }
    let sgn = if area >= 0.0 { 1.0 } else { -1.0 };
    let mut max_edge = f64::NEG_INFINITY; let mut min_seg = f64::INFINITY;
    for i in 0..n { let a = vs[i]; let b = vs[(i+1)%n];
        let (ex, ey) = (b.x()-a.x(), b.y()-a.y()); let (px, py) = (q.x()-a.x(), q.y()-a.y());
        let len = (ex*ex+ey*ey).sqrt();
        // outward normal for CCW polygon is (ey, -ex)
        let d = sgn * (px*ey - py*ex) / len; if d > max_edge { max_edge = d; }
        let t = ((px*ex+py*ey)/(len*len)).clamp(0.0, 1.0); let (cx, cy) = (px - t*ex, py - t*ey); let ds = (cx*cx+cy*cy).sqrt(); if ds < min_seg { min_seg = ds; }
    }
    if max_edge <= 0.0 { max_edge } else { min_seg }
}
pub fn oracle_dist(id: u64, p: LonLat) -> f64 {
    use a5::core::serialization::deserialize; use a5::core::cell::get_pentagon; use a5::core::coordinate_transforms::from_lon_lat; use a5::projections::dodecahedron::DodecahedronProjection;
    let c = deserialize(id).unwrap(); let pent = get_pentagon(&c).unwrap();
    let q = DodecahedronProjection::get_thread_local().forward(from_lon_lat(p), c.origin_id).unwrap();
    poly_signed_dist(pent.get_vertices_vec(), q)
}

/// closed-form WGS84 geodetic -> authalic latitude (radians)
pub fn authalic_closed(phi: f64) -> f64 {
    let f: f64 = 1.0/298.257223563; let e2: f64 = f*(2.0-f); let e: f64 = e2.sqrt();
    let q = |s: f64| (1.0-e2)*(s/(1.0-e2*s*s) - (1.0/(2.0*e))*((1.0-e*s)/(1.0+e*s)).ln());
    let qp = q(1.0); (q(phi.sin())/qp).clamp(-1.0,1.0).asin()
}
pub fn unit(lon_deg: f64, lat_deg: f64) -> [f64;3] { let b = authalic_closed(lat_deg.to_radians()); let l = lon_deg.to_radians(); [b.cos()*l.cos(), b.cos()*l.sin(), b.sin()] }
/// signed area of spherical polygon (great-circle edges) via sum of Van Oosterom-Strackee triangle fan from first vertex
pub fn sph_area(vs: &[[f64;3]]) -> f64 {
    let dot = |a: [f64;3], b: [f64;3]| a[0]*b[0]+a[1]*b[1]+a[2]*b[2];
    let cross = |a: [f64;3], b: [f64;3]| [a[1]*b[2]-a[2]*b[1], a[2]*b[0]-a[0]*b[2], a[0]*b[1]-a[1]*b[0]];
    // fan from centroid for robustness
    let mut c = [0.0;3]; for v in vs { for k in 0..3 { c[k] += v[k]; } } let l = dot(c,c).sqrt(); let c = [c[0]/l, c[1]/l, c[2]/l];
    let mut area = 0.0; let n = vs.len();
    for i in 0..n { let a = vs[i]; let b = vs[(i+1)%n]; let num = dot(c, cross(a, b)); let den = 1.0 + dot(c,a) + dot(a,b) + dot(b,c); area += 2.0 * num.atan2(den); }
    area
}

/// area of a small spherical polygon: planar area of the polygon projected (gnomonically) onto the tangent plane at its centroid direction;
/// relative error O(L^2). Uses difference vectors to avoid cancellation.
pub fn small_area(vs: &[[f64;3]]) -> f64 {
    let mut c = [0.0;3]; for v in vs { for k in 0..3 { c[k] += v[k]; } } let l = (c[0]*c[0]+c[1]*c[1]+c[2]*c[2]).sqrt(); let c = [c[0]/l, c[1]/l, c[2]/l];
    let n = vs.len(); let mut s = 0.0;
    let d: Vec<[f64;3]> = vs.iter().map(|v| [v[0]-c[0], v[1]-c[1], v[2]-c[2]]).collect();
    for i in 0..n { let a = d[i]; let b = d[(i+1)%n]; let x = [a[1]*b[2]-a[2]*b[1], a[2]*b[0]-a[0]*b[2], a[0]*b[1]-a[1]*b[0]]; s += c[0]*x[0]+c[1]*x[1]+c[2]*x[2]; }
    0.5 * s
}

/// pole-robust unit vector: authalic colatitude computed without cancellation from geodetic colatitude (90-|lat| exact)
pub fn unit_robust(lon_deg: f64, lat_deg: f64) -> [f64;3] {
    let f: f64 = 1.0/298.257223563; let e2: f64 = f*(2.0-f); let e: f64 = e2.sqrt();
    let sgn = if lat_deg < 0.0 { -1.0 } else { 1.0 };
    let theta = (90.0 - lat_deg.abs()).to_radians();            // geodetic colatitude, exact subtraction
    let u = 2.0 * (theta/2.0).sin().powi(2);                    // 1 - sin(phi)
    let s = 1.0 - u;
    let q = |s: f64| (1.0-e2)*(s/(1.0-e2*s*s) + (e*s).atanh()/e);
    let qp = q(1.0);
    let dq = (1.0-e2)*( u*(1.0+e2*s)/((1.0-e2)*(1.0-e2*s*s)) + (e*u/(1.0-e2*s)).atanh()/e );   // qp - q(s), no cancellation
    let psi = 2.0 * (dq/(2.0*qp)).sqrt().asin();                // authalic colatitude
    let l = lon_deg.to_radians();
    [psi.sin()*l.cos(), psi.sin()*l.sin(), sgn*psi.cos()]
}
