use a5::projections::authalic::AuthalicProjection;
use a5::coordinate_systems::{Radians, LonLat};
use a5::core::coordinate_transforms::{from_lon_lat, to_lon_lat, to_cartesian};
use proto::*;
fn main() {
    let a = AuthalicProjection; let n = 2_000_000; let h = std::f64::consts::FRAC_PI_2;
    let (mut wrt, mut wcf, mut wodd) = (0.0f64, 0.0f64, 0.0f64); let mut nonmono = 0; let mut prev = f64::NEG_INFINITY; let mut wcf_at = 0.0;
    for i in 0..=n { let phi = -h + (2.0*h) * (i as f64 / n as f64); let b = a.forward(Radians::new_unchecked(phi)).get(); let back = a.inverse(Radians::new_unchecked(b)).get();
        wrt = wrt.max((back - phi).abs()); if b <= prev { nonmono += 1; } prev = b;
        let odd = (a.forward(Radians::new_unchecked(-phi)).get() + b).abs(); wodd = wodd.max(odd);
        if phi.abs() <= 89.0f64.to_radians() { let e = (authalic_closed(phi) - b).abs(); if e > wcf { wcf = e; wcf_at = phi.to_degrees(); } } }
    println!("roundtrip worst {wrt:.2e}; nonmonotone steps {nonmono}; oddness {wodd:.2e}; vs closed form worst {wcf:.2e} at {wcf_at}");
    println!("f(0)={:e} f(pi/2)-pi/2={:e} f(-pi/2)+pi/2={:e}", a.forward(Radians::new_unchecked(0.0)).get(), a.forward(Radians::new_unchecked(h)).get()-h, a.forward(Radians::new_unchecked(-h)).get()+h);
    let mut rng = Rng(2); let mut w = 0.0f64;
    for _ in 0..1_000_000 { let lon = rng.f()*1080.0-540.0; let lat = match rng.below(10) { 0 => 90.0, 1 => -90.0, _ => rng.f()*180.0-90.0 };
        let p = LonLat::new(lon, lat); let q = to_lon_lat(from_lon_lat(p));
        let u1 = unit(lon, lat); let u2 = unit(q.longitude(), q.latitude()); let c = [u1[1]*u2[2]-u1[2]*u2[1], u1[2]*u2[0]-u1[0]*u2[2], u1[0]*u2[1]-u1[1]*u2[0]];
        let e = (c[0]*c[0]+c[1]*c[1]+c[2]*c[2]).sqrt().atan2(u1[0]*u2[0]+u1[1]*u2[1]+u1[2]*u2[2]); w = w.max(e); }
    println!("lonlat->sphere->lonlat worst physical error {w:.2e} rad");
    let _ = to_cartesian;
}
