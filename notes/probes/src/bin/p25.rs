use a5::*;
use a5::core::cell::{CellToBoundaryOptions, get_pentagon};
use a5::core::serialization::deserialize;
use a5::projections::dodecahedron::DodecahedronProjection;
use proto::*;
fn main() {
    for res in [20, 29] {
        let id = lonlat_to_cell(LonLat::new(12.0, 90.0), res).unwrap();
        let c = deserialize(id).unwrap(); let pent = get_pentagon(&c).unwrap();
        let d = DodecahedronProjection::get_thread_local();
        let ring = cell_to_boundary(id, Some(CellToBoundaryOptions{closed_ring:false, segments:Some(1)})).unwrap();
        println!("res {res} id {id:#x} face {}", c.origin_id);
        let mut verts = pent.get_vertices_vec().clone(); verts.reverse();
        for (v, p) in verts.iter().zip(ring.iter()) {
            let s = d.inverse(*v, c.origin_id).unwrap();
            let u = unit_robust(p.longitude(), p.latitude()); let psi = (u[0]*u[0]+u[1]*u[1]).sqrt().atan2(u[2]);
            let rho = (v.x()*v.x()+v.y()*v.y()).sqrt();
            println!("  planar rho {rho:.6e}  internal phi {:.6e} (phi/rho {:.9})  lonlat {:?}  my psi {psi:.6e} (psi/phi {:.9})", s.phi().get(), s.phi().get()/rho, (p.longitude(), p.latitude()), psi/s.phi().get());
        }
    }
}
