// calibrate O2 (public-API ring containment) against O1 (planar exact-edge)
use a5::*;
use a5::core::cell::CellToBoundaryOptions;
use proto::*;
fn gen_signed(poly: &[(f64,f64)], q: (f64,f64)) -> f64 { let n = poly.len(); let mut inside = false; let mut dmin = f64::INFINITY;
    for i in 0..n { let a = poly[i]; let b = poly[(i+1)%n]; if (a.1 > q.1) != (b.1 > q.1) { let x = a.0 + (q.1-a.1)/(b.1-a.1)*(b.0-a.0); if x > q.0 { inside = !inside; } }
        let (ex, ey) = (b.0-a.0, b.1-a.1); let (px, py) = (q.0-a.0, q.1-a.1); let t = ((px*ex+py*ey)/(ex*ex+ey*ey)).clamp(0.0,1.0); let (cx, cy) = (px-t*ex, py-t*ey); dmin = dmin.min((cx*cx+cy*cy).sqrt()); }
    if inside { -dmin } else { dmin } }
fn o2(id: u64, p: LonLat, segs: i32) -> f64 {
    let ring = cell_to_boundary(id, Some(CellToBoundaryOptions{closed_ring:false, segments:Some(segs)})).unwrap();
    let vs: Vec<[f64;3]> = ring.iter().map(|q| unit(q.longitude(), q.latitude())).collect();
    let mut c = [0.0;3]; for v in &vs { for k in 0..3 { c[k] += v[k]; } } let l = (c[0]*c[0]+c[1]*c[1]+c[2]*c[2]).sqrt(); let c = [c[0]/l, c[1]/l, c[2]/l];
    let a = if c[2].abs() < 0.9 { [0.0,0.0,1.0] } else { [1.0,0.0,0.0] };
    let e1 = { let x = [a[1]*c[2]-a[2]*c[1], a[2]*c[0]-a[0]*c[2], a[0]*c[1]-a[1]*c[0]]; let l = (x[0]*x[0]+x[1]*x[1]+x[2]*x[2]).sqrt(); [x[0]/l,x[1]/l,x[2]/l] }; let e2 = [c[1]*e1[2]-c[2]*e1[1], c[2]*e1[0]-c[0]*e1[2], c[0]*e1[1]-c[1]*e1[0]];
    let g = |v: [f64;3]| { let d = v[0]*c[0]+v[1]*c[1]+v[2]*c[2]; let w = [v[0]-c[0], v[1]-c[1], v[2]-c[2]]; ((w[0]*e1[0]+w[1]*e1[1]+w[2]*e1[2])/d, (w[0]*e2[0]+w[1]*e2[1]+w[2]*e2[2])/d) };
    let poly: Vec<(f64,f64)> = vs.iter().map(|v| g(*v)).collect();
    gen_signed(&poly, g(unit(p.longitude(), p.latitude())))
}
fn main() {
    let mut rng = Rng(17);
    for res in [0, 1, 2, 3, 4, 5, 6, 8, 10, 12, 16, 20, 24, 29] {
        let size = (4.0*std::f64::consts::PI / get_num_cells(res) as f64).sqrt();
        for segs in [4, 16] {
            let mut worst = 0.0f64; let mut n = 0;
            for _ in 0..60 { let (lon, lat) = rng.lonlat(); if lat.abs() > 89.0 { continue; } let id = lonlat_to_cell(LonLat::new(lon, lat), res).unwrap();
                // true edge points: ring with 7*segs+? segments -> points between O2's vertices
                let ring = cell_to_boundary(id, Some(CellToBoundaryOptions{closed_ring:false, segments:Some(segs*2)})).unwrap();
                for (i, q) in ring.iter().enumerate() { if i % 2 == 1 { continue; } n += 1; let d2 = o2(id, *q, segs).abs(); if d2 > worst { worst = d2; } } }
            print!("res {res:2} segs {segs:2}: n={n} worst |O2| at true-edge midpoints={worst:.2e} = {:.3} L^2/n^2 | ", worst/(size*size/(segs*segs) as f64));
        }
        println!();
    }
}
