use a5::*;
fn main() {
    let res0 = get_res0_cells().unwrap();
    for f in [0usize, 5, 11] { let mut v = cell_to_children(res0[f], Some(1)).unwrap(); v.push(res0[f]); println!("face {f}: compact(5 quintants + own base) = {:x?}", compact(&v).unwrap()); }
    // world + all base
    let mut v = res0.clone(); v.push(0); println!("compact(12 base + world) = {:x?}", compact(&v).unwrap());
    // C20 / order sanity: children interval
    let q = cell_to_children(res0[3], Some(1)).unwrap()[2]; let kids = cell_to_children(q, Some(4)).unwrap(); println!("q={q:x} kids min {:x} max {:x} sorted={}", kids.iter().min().unwrap(), kids.iter().max().unwrap(), kids.windows(2).all(|w| w[0] < w[1]));
    println!("uncompact([base0], 28) would need {} cells", a5::core::cell_info::get_num_children(0, 28));
    println!("res(30-lookup)= {:?}", lonlat_to_cell(LonLat::new(1.0, 2.0), 30).map(|id| (format!("{id:x}"), get_resolution(id))));
    println!("children(res29, None) = {:?}", cell_to_children(lonlat_to_cell(LonLat::new(1.0, 2.0), 29).unwrap(), None).map(|v| v.iter().map(|&c| (format!("{c:x}"), get_resolution(c))).collect::<Vec<_>>()));
    println!("parent(1<<63 ...): {:?} {:?}", cell_to_parent(0xfc00000000000001, None), get_resolution(0xfc00000000000001));
    println!("noncanonical: res(0x0200000000000001)={} parent={:x?} children={:x?}", get_resolution(0x0200000000000001), cell_to_parent(0x0200000000000001, None), cell_to_children(0x0200000000000001, None).map(|v| v.len()));
}
