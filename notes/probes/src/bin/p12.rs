use a5::*;
use a5::core::cell::CellToBoundaryOptions;
use proto::*;
fn main() {
    let mut rng = Rng(9);
    for res in 0..=29 {
        let expect = 4.0*std::f64::consts::PI / (if res == 0 { 12.0 } else { 60.0 * 4f64.powi(res-1) });
        for segs in [1, 8, 64] {
            let mut worst: f64 = 0.0; let mut neg = 0;
            for _ in 0..200 { let (lon, lat) = rng.lonlat(); let id = lonlat_to_cell(LonLat::new(lon, lat), res).unwrap();
                let ring = cell_to_boundary(id, Some(CellToBoundaryOptions{closed_ring:false, segments:Some(segs)})).unwrap();
                let vs: Vec<[f64;3]> = ring.iter().map(|p| unit(p.longitude(), p.latitude())).collect();
                let a = if res >= 12 { small_area(&vs) } else { sph_area(&vs) }; if a < 0.0 { neg += 1; } let rel = (a.abs()/expect - 1.0).abs(); if rel > worst { worst = rel; } }
            print!("res {res:2} segs {segs:2}: worst rel area err {worst:.2e} cw={neg}   ");
        }
        println!();
    }
    println!("cell_area(5)*num={} ", cell_area(5) * get_num_cells(5) as f64);
}
