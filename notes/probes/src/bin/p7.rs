use a5::*;
use a5::core::cell::CellToBoundaryOptions;
use proto::*;
fn main() {
    let mut rng = Rng(5);
    let n: usize = std::env::args().nth(1).map(|s| s.parse().unwrap()).unwrap_or(2000);
    for res in [20, 24, 26, 27, 28, 29] {
        let mut hist_r = [0usize; 20]; let mut hist_h = [0usize; 20]; let (mut nr, mut nh) = (0, 0);
        let cell_size = (4.0*std::f64::consts::PI / get_num_cells(res) as f64).sqrt();
        for _ in 0..n {
            let (lon, lat) = rng.lonlat(); if lat.abs() > 70.0 { continue; }
            let p = LonLat::new(lon, lat);
            let id = lonlat_to_cell(p, res).unwrap();
            nr += 1; let d0 = oracle_dist(id, p); if d0 > 0.0 { let b = ((-d0.log10()).floor() as usize).min(19); hist_r[b] += 1; }
            let b = cell_to_boundary(id, Some(CellToBoundaryOptions{closed_ring: false, segments: Some(2)})).unwrap();
            for v in &b { nh += 1; let id2 = lonlat_to_cell(*v, res).unwrap(); let d = oracle_dist(id2, *v); if d > 0.0 { let b = ((-d.log10()).floor() as usize).min(19); hist_h[b] += 1; } }
        }
        println!("res {res} cell_size={cell_size:.2e}\n  random n={nr} outside-hist by 10^-k, k=0..19: {:?}\n  onvertex/edge-mid n={nh}: {:?}", hist_r, hist_h);
    }
}
