use a5::core::hilbert::{s_to_anchor, ij_to_s, Orientation};
use a5::core::tiling::get_pentagon_vertices;
use a5::core::coordinate_transforms::face_to_ij;
use a5::core::pentagon::{u, v, w};
use a5::coordinate_systems::Face;
use proto::*;
use std::collections::HashSet;
fn main() {
    let ors = [Orientation::UV, Orientation::VU, Orientation::UW, Orientation::WU, Orientation::VW, Orientation::WV];
    let tri = [u(), v(), w()];
    println!("triangle {:?}", tri);
    for n in 1..=9usize {
        for &o in &ors {
            let total = 1u64 << (2*n); let mut seen = HashSet::new(); let (mut inv_fail, mut outside) = (0, 0); let mut worst_out = f64::NEG_INFINITY;
            for s in 0..total {
                let a = s_to_anchor(s, n, o);
                let p = get_pentagon_vertices(n as i32, 0, &a);
                let c = p.get_center();
                // scaled centre for ij
                let sc = (1u64 << n) as f64; let ij = face_to_ij(Face::new(c.x()*sc, c.y()*sc));
                if ij_to_s(ij, n, o) != s { inv_fail += 1; }
                let key = ((c.x()*sc*1e6).round() as i64, (c.y()*sc*1e6).round() as i64); seen.insert(key);
                let d = poly_signed_dist(&tri, c); if d > 0.0 { outside += 1; } if d > worst_out { worst_out = d; }
            }
            if inv_fail > 0 || seen.len() as u64 != total || outside > 0 { println!("n={n} {o:?}: total={total} distinct={} inv_fail={inv_fail} centres_outside_triangle={outside} worst={worst_out:.2e}", seen.len()); }
        }
        println!("n={n} done");
    }
    // big n spot checks
    let mut rng = Rng(4);
    for n in [15usize, 20, 25, 28] { let mut bad = 0; for &o in &ors { for _ in 0..20000 { let s = rng.next() & ((1u64 << (2*n)) - 1); let a = s_to_anchor(s, n, o); let p = get_pentagon_vertices(n as i32, 0, &a); let c = p.get_center(); let sc = (1u64 << n) as f64; if ij_to_s(face_to_ij(Face::new(c.x()*sc, c.y()*sc)), n, o) != s { bad += 1; } } } println!("n={n} random inv_fail={bad}/120000"); }
}
