use a5::*;
use a5::core::origin::get_origins;
use a5::core::coordinate_transforms::{to_cartesian, from_lon_lat};
use a5::core::serialization::deserialize;
use proto::*;
fn main() {
    let mut rng = Rng(3);
    let centers: Vec<[f64;3]> = get_origins().iter().map(|o| { let c = to_cartesian(o.axis); [c.x(), c.y(), c.z()] }).collect();
    for res in 0..=5 {
        let cells = cell_to_children(0, Some(res)).unwrap();
        let faces: Vec<usize> = cells.iter().map(|&c| deserialize(c).unwrap().origin_id as usize).collect();
        let (mut multi, mut gaps, mut n) = (0, 0, 0); let mut worst_gap: f64 = 0.0; let mut worst_overlap: f64 = 0.0; let mut ex = None;
        for _ in 0..(if res < 4 { 20000 } else { 3000 }) {
            let (lon, lat) = rng.lonlat(); let p = LonLat::new(lon, lat);
            let c = to_cartesian(from_lon_lat(p)); let v = [c.x(), c.y(), c.z()];
            let ang: Vec<f64> = centers.iter().map(|a| (a[0]*v[0]+a[1]*v[1]+a[2]*v[2]).clamp(-1.0,1.0).acos()).collect();
            let amin = ang.iter().cloned().fold(f64::INFINITY, f64::min);
            let mut inside = vec![]; let mut best = f64::INFINITY;
            for (i, &cell) in cells.iter().enumerate() { if ang[faces[i]] > amin + 0.45 { continue; } let d = oracle_dist(cell, p); if d < best { best = d; } if d < 0.0 { inside.push((cell, d)); } }
            n += 1;
            if inside.len() > 1 { inside.sort_by(|a, b| a.1.partial_cmp(&b.1).unwrap()); let ov = -inside[1].1; if ov > 1e-12 { multi += 1; if ov > worst_overlap { worst_overlap = ov; ex = Some((lon, lat, inside.clone())); } } }
            if best > 1e-12 { gaps += 1; if best > worst_gap { worst_gap = best; } }
        }
        println!("res {res}: cells={} points={n} overlaps(>1e-12)={multi} worst_overlap={worst_overlap:.2e} gaps={gaps} worst_gap={worst_gap:.2e} {ex:x?}", cells.len());
    }
}
