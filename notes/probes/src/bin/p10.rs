use a5::*;
use proto::*;
fn main() {
    let mut rng = Rng(11);
    for res in [20, 24, 26, 27, 28, 29] {
        for k in [2.0, 4.0, 5.0, 6.0, 7.0, 8.0, 9.0] {
            let mut bad = 0; let mut n = 0; let mut worst: f64 = -1.0; let mut miss = 0;
            for _ in 0..2000 {
                let lat = 90.0 - 10f64.powf(-k) * (1.0 + rng.f()); let lon = rng.f() * 360.0 - 180.0;
                let s = if rng.below(2) == 0 { 1.0 } else { -1.0 };
                let p = LonLat::new(lon, s * lat);
                let id = lonlat_to_cell(p, res).unwrap();
                if oracle_dist(id, p) > 1e-12 { miss += 1; }
                let c = cell_to_lonlat(id).unwrap();
                let id2 = lonlat_to_cell(c, res).unwrap();
                n += 1; if id2 != id { bad += 1; } let d = oracle_dist(id, c); if d > worst { worst = d; }
            }
            println!("res {res} polar-dist 1e-{k} deg: lookup_miss={miss} centre_roundtrip_fail={bad}/{n} worst centre-outside-own-cell dist={worst:.2e}");
        }
    }
}
