// C11 + C12 probes
use a5::*;
use a5::core::cell::CellToBoundaryOptions;
use proto::*;
fn ang(a: [f64;3], b: [f64;3]) -> f64 { let c = [a[1]*b[2]-a[2]*b[1], a[2]*b[0]-a[0]*b[2], a[0]*b[1]-a[1]*b[0]]; (c[0]*c[0]+c[1]*c[1]+c[2]*c[2]).sqrt().atan2(a[0]*b[0]+a[1]*b[1]+a[2]*b[2]) }
fn main() {
    let mut rng = Rng(31);
    let mut stats = std::collections::BTreeMap::<String, u64>::new();
    let mut worst_child = vec![0.0f64; 30]; let mut min_cover = vec![f64::INFINITY; 30]; let mut min_overlap_children = vec![usize::MAX; 30];
    for it in 0..60000 {
        let res = rng.below(30) as i32;
        let (lon, lat) = match rng.below(4) { 0 => (180.0 + (rng.f()-0.5)*4.0*10f64.powf(-rng.f()*6.0), rng.f()*180.0-90.0), 1 => (rng.f()*360.0-180.0, (if rng.below(2)==0 {1.0} else {-1.0}) * (90.0 - 10f64.powf(-rng.f()*5.0)*8.0)), _ => rng.lonlat() };
        let id = lonlat_to_cell(LonLat::new(lon, lat), res).unwrap();
        let ctr = cell_to_lonlat(id).unwrap(); let cu = unit(ctr.longitude(), ctr.latitude());
        let nv = if res == 1 { 3 } else { 5 };
        for (segs, closed) in [(None, true), (Some(1), false), (Some(1 + rng.below(64) as i32), rng.below(2) == 0)] {
            let ring = cell_to_boundary(id, Some(CellToBoundaryOptions{closed_ring: closed, segments: segs})).unwrap();
            let n = segs.unwrap_or_else(|| std::cmp::max(1, 1 << (6 - res).max(0))) as usize;
            *stats.entry("rings".into()).or_default() += 1;
            if ring.len() != nv*n + closed as usize { *stats.entry(format!("badlen res{res}")).or_default() += 1; }
            if closed && ring[0] != ring[ring.len()-1] { *stats.entry("notclosed".into()).or_default() += 1; }
            if ring.iter().any(|p| !p.longitude().is_finite() || !p.latitude().is_finite()) { *stats.entry("nonfinite".into()).or_default() += 1; }
            if ring.iter().any(|p| p.latitude().abs() > 90.0 + 1e-9) { *stats.entry("lat>90".into()).or_default() += 1; }
            let lons: Vec<f64> = ring.iter().map(|p| p.longitude()).collect(); let span = lons.iter().cloned().fold(f64::NEG_INFINITY, f64::max) - lons.iter().cloned().fold(f64::INFINITY, f64::min);
            let open: Vec<[f64;3]> = ring[..ring.len() - closed as usize].iter().map(|p| unit(p.longitude(), p.latitude())).collect();
            let polar_touch = open.iter().any(|u| u[2].abs() > 1.0 - 1e-9) || { // pole inside ring?
                let np = [0.0, 0.0, if cu[2] > 0.0 { 1.0 } else { -1.0 }]; winding(&open, np) };
            if span >= 180.0 && !polar_touch { *stats.entry(format!("span>=180 res{res}")).or_default() += 1; if stats.len() < 30 { println!("span {span} id {id:#x} ctr {ctr:?}"); } }
            if span >= 180.0 && polar_touch { *stats.entry("polar-span".into()).or_default() += 1; }
            let a = if res >= 12 { small_area(&open) } else { sph_area(&open) }; if a <= 0.0 { *stats.entry(format!("cw res{res}")).or_default() += 1; }
            if !winding(&open, cu) { *stats.entry(format!("centre-outside res{res}")).or_default() += 1; }
        }
        // C12
        if res <= 28 && it % 4 == 0 {
            let kids = cell_to_children(id, None).unwrap(); let parea = 4.0*std::f64::consts::PI / (if res == 0 { 12.0 } else { 60.0*4f64.powi(res-1) });
            for &k in &kids { let kc = cell_to_lonlat(k).unwrap(); let d = ang(cu, unit(kc.longitude(), kc.latitude())) / parea.sqrt(); if d > worst_child[res as usize] { worst_child[res as usize] = d; } }
        }
    }
    println!("{stats:?}");
    println!("worst child-centre distance / sqrt(parent area) per res: {:?}", worst_child.iter().map(|x| (x*1000.0).round()/1000.0).collect::<Vec<_>>());
    let _ = (&mut min_cover, &mut min_overlap_children);
}
/// is point q inside spherical polygon (ring of unit vectors), by summing signed angles in tangent plane at q (assumes ring within a hemisphere around q)
fn winding(ring: &[[f64;3]], q: [f64;3]) -> bool {
    // basis
    let a = if q[2].abs() < 0.9 { [0.0, 0.0, 1.0] } else { [1.0, 0.0, 0.0] };
    let e1 = { let c = [a[1]*q[2]-a[2]*q[1], a[2]*q[0]-a[0]*q[2], a[0]*q[1]-a[1]*q[0]]; let l = (c[0]*c[0]+c[1]*c[1]+c[2]*c[2]).sqrt(); [c[0]/l, c[1]/l, c[2]/l] };
    let e2 = [q[1]*e1[2]-q[2]*e1[1], q[2]*e1[0]-q[0]*e1[2], q[0]*e1[1]-q[1]*e1[0]];
    let pts: Vec<(f64, f64)> = ring.iter().map(|v| { let d = [v[0]-q[0], v[1]-q[1], v[2]-q[2]]; (d[0]*e1[0]+d[1]*e1[1]+d[2]*e1[2], d[0]*e2[0]+d[1]*e2[1]+d[2]*e2[2]) }).collect();
    let mut tot = 0.0; for i in 0..pts.len() { let (x1, y1) = pts[i]; let (x2, y2) = pts[(i+1)%pts.len()]; tot += (x1*y2 - x2*y1).atan2(x1*x2 + y1*y2); }
    tot.abs() > 3.0
}
