use a5::*;
fn main() { let mut rng = proto::Rng(5); for res in 0..30 { let mut h = 0u64; for _ in 0..200 { let (a, b) = rng.lonlat(); let id = lonlat_to_cell(LonLat::new(a, b), res).unwrap(); h = h.rotate_left(7) ^ id; } println!("{res} {h:x}"); } }
