use a5::*;
fn main() {
    let a: Vec<String> = std::env::args().collect();
    let r: i32 = a[2].parse().unwrap();
    match a[1].as_str() {
        "l2c" => println!("{:?}", lonlat_to_cell(LonLat::new(10.0, 20.0), r)),
        "ncells" => println!("{:?}", get_num_cells(r)),
        "area" => println!("{:?}", cell_area(r)),
        "children" => { let id = u64::from_str_radix(&a[3], 16).unwrap(); println!("{:?}", cell_to_children(id, Some(r)).map(|v| v.len())) },
        "bseg" => { let id = u64::from_str_radix(&a[3], 16).unwrap(); println!("{:?}", cell_to_boundary(id, Some(a5::core::cell::CellToBoundaryOptions{closed_ring:true, segments: Some(r)})).map(|v| v.len())) },
        _ => {}
    }
}
