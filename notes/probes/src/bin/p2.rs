use a5::*;
use a5::core::cell::CellToBoundaryOptions;
use proto::Rng;
use std::panic::catch_unwind;
use std::collections::BTreeMap;
fn main() {
    std::panic::set_hook(Box::new(|_| {}));
    let mut rng = Rng(7);
    let mut tally: BTreeMap<String, (u64, String)> = BTreeMap::new();
    let mut rec = |name: &str, input: String, r: std::thread::Result<()>| {
        if let Err(e) = r {
            let msg = if let Some(s) = e.downcast_ref::<String>() { s.clone() } else if let Some(s) = e.downcast_ref::<&str>() { s.to_string() } else { "?".into() };
            let key = format!("{name}: {}", &msg[..msg.len().min(70)]);
            let ent = tally.entry(key).or_insert((0, input));
            ent.0 += 1;
        }
    };
    let ress: Vec<i32> = vec![i32::MIN, -1000, -3, -2, -1, 0, 1, 2, 28, 29, 30, 31, 32, 33, 40, 59, 60, 64, 100, 1000, i32::MAX];
    for &r in &ress {
        rec("get_num_cells", format!("{r}"), catch_unwind(|| { let _ = get_num_cells(r); }));
        rec("cell_area", format!("{r}"), catch_unwind(|| { let _ = cell_area(r); }));
        for (lon, lat) in [(0.0, 0.0), (10.0, 90.0), (-180.0, -90.0), (1e300, 45.0), (720.0, 91.0), (f64::MAX, -90.0), (5.0, 1e10)] {
            if r.abs() < 100000 { rec("lonlat_to_cell", format!("{lon},{lat},{r}"), catch_unwind(|| { let _ = lonlat_to_cell(LonLat::new(lon, lat), r); })); }
        }
    }
    let mut ids: Vec<u64> = vec![0, 1, 2, 3, 4, 7, u64::MAX, u64::MAX - 1, 1 << 63, 0xfc00000000000000, 0xf000000000000000, 0xf400000000000000, 0x0200000000000000, 0x0100000000000000];
    for b in 0..64 { ids.push(1u64 << b); ids.push((1u64 << b) | (59u64 << 58)); ids.push((1u64 << b) | (60u64 << 58)); ids.push((1u64<<b) | (63u64 << 58)); ids.push(u64::MAX << b); ids.push(u64::MAX >> b);}
    for _ in 0..3000 { let x = rng.next(); let k = rng.below(64) as u32; ids.push(x); ids.push(x >> k << k); ids.push(x & (x.wrapping_sub(1))); }
    for &id in &ids {
        rec("get_resolution", format!("{id:#x}"), catch_unwind(|| { let _ = get_resolution(id); }));
        rec("cell_to_lonlat", format!("{id:#x}"), catch_unwind(|| { let _ = cell_to_lonlat(id); }));
        rec("cell_to_boundary", format!("{id:#x}"), catch_unwind(|| { let _ = cell_to_boundary(id, None); }));
        for seg in [0, 1, 3] {
            rec("cell_to_boundary_seg", format!("{id:#x} seg={seg}"), catch_unwind(|| { let _ = cell_to_boundary(id, Some(CellToBoundaryOptions{closed_ring: false, segments: Some(seg)})); }));
        }
        rec("cell_to_parent(None)", format!("{id:#x}"), catch_unwind(|| { let _ = cell_to_parent(id, None); }));
        rec("cell_to_children(None)", format!("{id:#x}"), catch_unwind(|| { let r = get_resolution(id); if r >= 0 || true { let _ = cell_to_children(id, None); } }));
        let res = get_resolution(id);
        for &r in &ress {
            rec("cell_to_parent(r)", format!("{id:#x} {r}"), catch_unwind(|| { let _ = cell_to_parent(id, Some(r)); }));
            if (r as i64 - res as i64) <= 6 {
                rec("cell_to_children(r)", format!("{id:#x} {r}"), catch_unwind(|| { let _ = cell_to_children(id, Some(r)); }));
                rec("uncompact", format!("[{id:#x}] {r}"), catch_unwind(|| { let _ = uncompact(&[id], r); }));
            }
        }
        rec("compact1", format!("[{id:#x}]"), catch_unwind(|| { let _ = compact(&[id]); }));
        rec("u64_to_hex", format!("{id:#x}"), catch_unwind(|| { let h = u64_to_hex(id); assert_eq!(hex_to_u64(&h).unwrap(), id); }));
    }
    for s in ["", "0x10", "+1", "-1", "g", "fffffffffffffffff", " 1", "１", "é", "00000000000000000001", "+", "FFFF"] {
        rec("hex_to_u64", s.to_string(), catch_unwind(|| { let r = hex_to_u64(s); eprintln!("hex {s:?} -> {r:?}"); }));
    }
    for (k, (n, ex)) in &tally { println!("{n:8}  {k}   e.g. {ex}"); }
    println!("distinct panic signatures: {}", tally.len());
}
