// worker: deterministic call list; run from index START; log "C <i> <desc>" before and "R <i> <outcome>" after each call
use a5::*;
use a5::core::cell::CellToBoundaryOptions;
use proto::Rng;
use std::io::Write;
use std::panic::catch_unwind;
#[derive(Clone, Debug)]
enum Call { NumCells(i32), Area(i32), L2C(f64,f64,i32), Res(u64), C2L(u64), C2B(u64, Option<i32>, bool), Parent(u64, Option<i32>), Children(u64, Option<i32>), Uncompact(Vec<u64>, i32), Compact(Vec<u64>), Hex(u64), Unhex(String) }
fn main() {
    std::panic::set_hook(Box::new(|_| {}));
    let start: usize = std::env::args().nth(1).unwrap().parse().unwrap();
    let mut rng = Rng(7);
    let ress: Vec<i32> = vec![i32::MIN, -1000, -3, -2, -1, 0, 1, 2, 3, 28, 29, 30, 31, 32, 33, 40, 59, 60, 64, 100, 1000, i32::MAX];
    let mut calls = vec![];
    for &r in &ress { calls.push(Call::NumCells(r)); calls.push(Call::Area(r));
        for (lon, lat) in [(0.0, 0.0), (10.0, 90.0), (-180.0, -90.0), (1e300, 45.0), (720.0, 91.0), (f64::MAX, -90.0), (5.0, 1e10)] { calls.push(Call::L2C(lon, lat, r)); } }
    let mut ids: Vec<u64> = vec![0, 1, 2, 3, 4, 7, u64::MAX, u64::MAX - 1, 1 << 63, 0xfc00000000000000, 0xf000000000000000, 0xf400000000000000, 0x0200000000000000, 0x0100000000000000];
    for b in 0..64 { ids.push(1u64 << b); ids.push((1u64 << b) | (59u64 << 58)); ids.push((1u64 << b) | (60u64 << 58)); ids.push((1u64<<b) | (63u64 << 58)); ids.push(u64::MAX << b); ids.push(u64::MAX >> b);}
    for _ in 0..500 { let x = rng.next(); let k = rng.below(64) as u32; ids.push(x); ids.push(x >> k << k); ids.push(x & (x.wrapping_sub(1))); }
    for &id in &ids {
        calls.push(Call::Res(id)); calls.push(Call::C2L(id)); calls.push(Call::C2B(id, None, true));
        for seg in [1, 3] { calls.push(Call::C2B(id, Some(seg), false)); }
        calls.push(Call::Parent(id, None)); calls.push(Call::Children(id, None));
        let res = get_resolution(id);
        for &r in &ress { calls.push(Call::Parent(id, Some(r)));
            if (r as i64 - res as i64) <= 6 { calls.push(Call::Children(id, Some(r))); calls.push(Call::Uncompact(vec![id], r)); } }
        calls.push(Call::Compact(vec![id])); calls.push(Call::Hex(id));
    }
    for s in ["", "0x10", "+1", "-1", "g", "fffffffffffffffff", " 1", "１", "é", "00000000000000000001", "+", "FFFF"] { calls.push(Call::Unhex(s.to_string())); }
    let out = std::io::stdout();
    if start == usize::MAX { println!("N {}", calls.len()); return; }
    for (i, c) in calls.iter().enumerate().skip(start) {
        { let mut o = out.lock(); writeln!(o, "C {i} {c:?}").unwrap(); o.flush().unwrap(); }
        let c2 = c.clone();
        let r = catch_unwind(move || -> String { match c2 {
            Call::NumCells(r) => format!("{}", get_num_cells(r)), Call::Area(r) => format!("{}", cell_area(r)),
            Call::L2C(a,b,r) => format!("{:?}", lonlat_to_cell(LonLat::new(a,b), r).map(|id| (id, get_resolution(id)))),
            Call::Res(id) => format!("{}", get_resolution(id)), Call::C2L(id) => format!("{:?}", cell_to_lonlat(id)),
            Call::C2B(id, s, c) => format!("{:?}", cell_to_boundary(id, Some(CellToBoundaryOptions{closed_ring:c, segments:s})).map(|v| v.len())),
            Call::Parent(id, r) => format!("{:?}", cell_to_parent(id, r)), Call::Children(id, r) => format!("{:?}", cell_to_children(id, r).map(|v| v.len())),
            Call::Uncompact(v, r) => format!("{:?}", uncompact(&v, r).map(|v| v.len())), Call::Compact(v) => format!("{:?}", compact(&v)),
            Call::Hex(id) => u64_to_hex(id), Call::Unhex(s) => format!("{:?}", hex_to_u64(&s)),
        }});
        let mut o = out.lock();
        match r { Ok(s) => writeln!(o, "R {i} ok {}", &s[..s.len().min(100)]).unwrap(),
            Err(e) => { let msg = if let Some(s) = e.downcast_ref::<String>() { s.clone() } else if let Some(s) = e.downcast_ref::<&str>() { s.to_string() } else { "?".into() }; writeln!(o, "R {i} PANIC {msg}").unwrap() } }
    }
}
