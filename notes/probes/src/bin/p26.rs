use a5::*;
use a5::core::cell::CellToBoundaryOptions;
use proto::*;
fn main() {
    let res0 = get_res0_cells().unwrap();
    for res in [2, 5, 10, 16, 20, 24, 29] { let expect = 4.0*std::f64::consts::PI / (60.0 * 4f64.powi(res-1));
        print!("res {res}: ");
        for f in [0usize, 3, 11] { let c = cell_to_lonlat(res0[f]).unwrap(); // face centre
            let mut worst: f64 = 0.0;
            for k in 0..5 { // 5 cells around the centre: nudge in 5 directions
                let id = lonlat_to_cell(LonLat::new(c.longitude() + if f == 0 || f == 11 { 72.0*k as f64 + 10.0 } else { 1e-7*(k as f64*1.2566).cos() }, (c.latitude() + if f==0 {-1e-9} else if f==11 {1e-9} else { 1e-7*(k as f64*1.2566).sin() }).clamp(-90.0, 90.0)), res).unwrap();
                for segs in [64] { let ring = cell_to_boundary(id, Some(CellToBoundaryOptions{closed_ring:false, segments:Some(segs)})).unwrap(); let vs: Vec<[f64;3]> = ring.iter().map(|p| unit_robust(p.longitude(), p.latitude())).collect();
                    let a = if res >= 12 { small_area(&vs) } else { sph_area(&vs) }; worst = worst.max((a/expect-1.0).abs()); } }
            print!("face {f} centre cells worst rel area err {worst:.2e} | "); }
        println!(); }
}
