use a5::*;
use a5::core::cell::CellToBoundaryOptions;
use proto::*;
fn main() {
    let mut rng = Rng(41);
    for res in [20, 22, 24, 26, 28, 29] { let expect = 4.0*std::f64::consts::PI / (60.0 * 4f64.powi(res-1));
        for k in [4.0, 5.0, 6.0, 7.0, 9.0] { let mut worst = 0.0f64; let mut n = 0; let mut cw = 0;
            for _ in 0..300 { let lat = 90.0 - 10f64.powf(-k)*(1.0+rng.f()); let s = if rng.below(2)==0 {1.0} else {-1.0}; let id = lonlat_to_cell(LonLat::new(rng.f()*360.0-180.0, s*lat), res).unwrap();
                let ring = cell_to_boundary(id, Some(CellToBoundaryOptions{closed_ring:false, segments:Some(8)})).unwrap(); let vs: Vec<[f64;3]> = ring.iter().map(|p| unit_robust(p.longitude(), p.latitude())).collect();
                let a = small_area(&vs); if a <= 0.0 { cw += 1; } let rel = (a/expect-1.0).abs(); if rel > worst { worst = rel; } n += 1; }
            print!("res {res} 1e-{k}deg: worst area err {worst:.1e} cw {cw}/{n} | "); }
        println!(); }
}
