use a5::*;
use a5::core::cell::a5cell_contains_point;
use a5::core::serialization::deserialize;
use proto::*;
fn main() {
    let a: Vec<String> = std::env::args().collect();
    let lon: f64 = a[1].parse().unwrap(); let lat: f64 = a[2].parse().unwrap(); let res: i32 = a[3].parse().unwrap();
    let p = LonLat::new(lon, lat);
    let id = lonlat_to_cell(p, res).unwrap();
    println!("returned {id:#x} oracle_dist={:.3e} lib_contains={:.3e}", oracle_dist(id, p), a5cell_contains_point(&deserialize(id).unwrap(), p).unwrap());
    // brute force: all cells at res (res<=8), or neighbourhood via parent's siblings
    let all = if res <= 8 { cell_to_children(0, Some(res)).unwrap() } else { vec![] };
    let mut best: Vec<(f64, u64)> = all.iter().map(|&c| (oracle_dist(c, p), c)).collect();
    best.sort_by(|a, b| a.0.partial_cmp(&b.0).unwrap());
    for (d, c) in best.iter().take(6) { println!("  cand {c:#x} oracle_dist={d:.3e} lib_contains={:.3e} centre={:?}", a5cell_contains_point(&deserialize(*c).unwrap(), p).unwrap(), cell_to_lonlat(*c).unwrap()); }
}
