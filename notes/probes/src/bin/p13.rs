// C15/C16 probe: projection invertibility, containment in face pentagon, area preservation
use a5::core::origin::{get_origins, find_nearest_origin};
use a5::core::coordinate_transforms::{to_cartesian, to_spherical};
use a5::coordinate_systems::{Cartesian, Face};
use a5::projections::dodecahedron::DodecahedronProjection;
use a5::core::tiling::get_face_vertices;
use proto::*;
fn ang(a: [f64;3], b: [f64;3]) -> f64 { let c = [a[1]*b[2]-a[2]*b[1], a[2]*b[0]-a[0]*b[2], a[0]*b[1]-a[1]*b[0]]; (c[0]*c[0]+c[1]*c[1]+c[2]*c[2]).sqrt().atan2(a[0]*b[0]+a[1]*b[1]+a[2]*b[2]) }
fn main() {
    let mut rng = Rng(21);
    let d = DodecahedronProjection::get_thread_local();
    let centers: Vec<[f64;3]> = get_origins().iter().map(|o| { let c = to_cartesian(o.axis); [c.x(), c.y(), c.z()] }).collect();
    let facepoly = get_face_vertices(); let fv = facepoly.get_vertices_vec().clone();
    let n = 400000;
    let (mut worst_rt, mut worst_rt2, mut worst_out, mut worst_in2) = (0.0f64, 0.0f64, f64::NEG_INFINITY, f64::INFINITY);
    let mut maxrho = 0.0f64; let mut nearest_mismatch = 0;
    for _ in 0..n {
        let z = 2.0*rng.f()-1.0; let t = rng.f()*std::f64::consts::TAU; let s = (1.0-z*z).sqrt(); let v = [s*t.cos(), s*t.sin(), z];
        let sp = to_spherical(Cartesian::new(v[0], v[1], v[2]));
        // order faces by true angular distance
        let mut order: Vec<(f64, usize)> = centers.iter().enumerate().map(|(i, c)| (ang(*c, v), i)).collect(); order.sort_by(|a, b| a.0.partial_cmp(&b.0).unwrap());
        let o = find_nearest_origin(sp); if o.id as usize != order[0].1 && (order[1].0 - order[0].0) > 1e-9 { nearest_mismatch += 1; }
        let f1 = order[0].1 as u8; let f2 = order[1].1 as u8;
        let q = d.forward(sp, f1).unwrap(); let back = d.inverse(q, f1).unwrap(); let b = to_cartesian(back);
        let e = ang(v, [b.x(), b.y(), b.z()]); if e > worst_rt { worst_rt = e; }
        let rho = (q.x()*q.x()+q.y()*q.y()).sqrt(); if rho > maxrho { maxrho = rho; }
        let dist = poly_signed_dist(&fv, q); if dist > worst_out { worst_out = dist; }
        let q2 = d.forward(sp, f2).unwrap(); let back2 = d.inverse(q2, f2).unwrap(); let b2 = to_cartesian(back2);
        let e2 = ang(v, [b2.x(), b2.y(), b2.z()]); if e2 > worst_rt2 { worst_rt2 = e2; }
        let dist2 = poly_signed_dist(&fv, q2); if dist2 < worst_in2 { worst_in2 = dist2; }
    }
    println!("n={n} nearest: worst roundtrip {worst_rt:.2e} rad, max rho {maxrho:.6} (vertex dist 0.7639320225), worst outside face pentagon {worst_out:.2e}; second-nearest: worst roundtrip {worst_rt2:.2e}, min signed dist to own pentagon {worst_in2:.2e} (should be >= -eps); nearest_mismatch={nearest_mismatch}");
    // planar -> sphere -> planar
    let mut worst_p = 0.0f64;
    for _ in 0..n { let f = rng.below(12) as u8; let (x, y) = loop { let x = (rng.f()*2.0-1.0)*0.77; let y = (rng.f()*2.0-1.0)*0.77; if poly_signed_dist(&fv, Face::new(x, y)) < 0.0 { break (x, y); } };
        let s = d.inverse(Face::new(x, y), f).unwrap(); let q = d.forward(s, f).unwrap(); let e = ((q.x()-x).powi(2) + (q.y()-y).powi(2)).sqrt(); if e > worst_p { worst_p = e; } }
    println!("planar->sphere->planar worst {worst_p:.2e}");
    // area preservation: small triangles
    let k = 4.0*std::f64::consts::PI / (12.0 * { let mut a = 0.0; for i in 0..5 { let p = fv[i]; let q = fv[(i+1)%5]; a += p.x()*q.y()-q.x()*p.y(); } (a/2.0f64).abs() });
    let mut worst_a = 0.0f64; let mut exa = None; let mut hist = [0usize; 12];
    for _ in 0..n { let f = rng.below(12) as u8; let r = 0.95 * rng.f().sqrt(); let g = rng.f()*std::f64::consts::TAU; let (cx, cy) = (r*g.cos()*0.7, r*g.sin()*0.7);
        let h = 1e-4; let rot = rng.f()*std::f64::consts::TAU;
        let tri: Vec<Face> = (0..3).map(|i| { let a = rot + i as f64 * 2.094395102393195; Face::new(cx + h*a.cos(), cy + h*a.sin()) }).collect();
        let parea = ((tri[1].x()-tri[0].x())*(tri[2].y()-tri[0].y()) - (tri[2].x()-tri[0].x())*(tri[1].y()-tri[0].y())).abs()/2.0;
        let sv: Vec<[f64;3]> = tri.iter().map(|p| { let c = to_cartesian(d.inverse(*p, f).unwrap()); [c.x(), c.y(), c.z()] }).collect();
        let sa = small_area(&sv).abs(); let rel = (sa/(parea*k) - 1.0).abs(); let b = ((-rel.log10()).floor().max(0.0) as usize).min(11); hist[b] += 1; if rel > worst_a { worst_a = rel; exa = Some((f, cx, cy)); } }
    println!("area ratio const k={k:.6}; worst rel deviation {worst_a:.2e} at {exa:?}; hist by 10^-k {hist:?}");
}
