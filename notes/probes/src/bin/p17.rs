// C12 probe: planar overlap between child and parent pentagons (same face plane)
use a5::*;
use a5::core::serialization::deserialize;
use a5::core::cell::get_pentagon;
use a5::coordinate_systems::Face;
use proto::*;
fn area(p: &[(f64,f64)]) -> f64 { let o = p[0]; let mut a = 0.0; for i in 0..p.len() { let (x1,y1) = (p[i].0-o.0, p[i].1-o.1); let (x2,y2) = (p[(i+1)%p.len()].0-o.0, p[(i+1)%p.len()].1-o.1); a += x1*y2-x2*y1; } a/2.0 }
fn ccw(mut p: Vec<(f64,f64)>) -> Vec<(f64,f64)> { if area(&p) < 0.0 { p.reverse(); } p }
fn clip(subject: &[(f64,f64)], clipper: &[(f64,f64)]) -> Vec<(f64,f64)> { // both ccw, clipper convex
    let mut out = subject.to_vec();
    for i in 0..clipper.len() { let a = clipper[i]; let b = clipper[(i+1)%clipper.len()]; let inp = out; out = vec![]; if inp.is_empty() { break; }
        let side = |p: (f64,f64)| (b.0-a.0)*(p.1-a.1) - (b.1-a.1)*(p.0-a.0);
        for j in 0..inp.len() { let p = inp[j]; let q = inp[(j+1)%inp.len()]; let (sp, sq) = (side(p), side(q));
            if sp >= 0.0 { out.push(p); } if (sp >= 0.0) != (sq >= 0.0) { let t = sp/(sp-sq); out.push((p.0+t*(q.0-p.0), p.1+t*(q.1-p.1))); } } }
    out }
fn poly(id: u64) -> Vec<(f64,f64)> { let c = deserialize(id).unwrap(); ccw(get_pentagon(&c).unwrap().get_vertices_vec().iter().map(|v: &Face| (v.x(), v.y())).collect()) }
fn main() {
    let mut rng = Rng(77);
    let mut min_child = vec![f64::INFINITY; 30]; let mut min_cover = vec![f64::INFINITY; 30]; let mut max_cover = vec![0.0f64; 30];
    for _ in 0..40000 { let res = rng.below(29) as i32; let (lon, lat) = rng.lonlat(); let id = lonlat_to_cell(LonLat::new(lon, lat), res).unwrap();
        let pp = poly(id); let pa = area(&pp); let mut cover = 0.0;
        for k in cell_to_children(id, None).unwrap() { let kp = poly(k); let ka = area(&kp); let inter = clip(&kp, &pp); let ia = if inter.len() >= 3 { area(&inter).abs() } else { 0.0 }; cover += ia; let f = ia/ka; if f < min_child[res as usize] { min_child[res as usize] = f; } }
        let c = cover/pa; if c < min_cover[res as usize] { min_cover[res as usize] = c; } if c > max_cover[res as usize] { max_cover[res as usize] = c; } }
    let r = |v: &Vec<f64>| v.iter().map(|x| (x*1000.0).round()/1000.0).collect::<Vec<_>>();
    println!("min fraction of child inside parent per parent res: {:?}\nmin cover of parent by children: {:?}\nmax cover: {:?}", r(&min_child), r(&min_cover), r(&max_cover));
}
