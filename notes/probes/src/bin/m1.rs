use a5::*;
fn work(seed: u64) -> Vec<u64> {
    let mut out = vec![];
    let mut rng = proto::Rng(seed);
    for k in 0..3 {
        let (lon, lat) = rng.lonlat();
        let res = [2, 9, 29][k % 3];
        let id = lonlat_to_cell(LonLat::new(lon, lat), res).unwrap();
        let c = cell_to_lonlat(id).unwrap();
        let b = cell_to_boundary(id, None).unwrap();
        out.push(id); out.push(c.longitude().to_bits()); out.push(b.len() as u64); out.push(b[0].latitude().to_bits());
    }
    out
}
fn main() {
    let a = work(1);
    let hs: Vec<_> = (0..2).map(|_| std::thread::spawn(|| work(1))).collect();
    for h in hs { assert_eq!(h.join().unwrap(), a); }
    println!("ok {:x?}", &a[..4]);
}
