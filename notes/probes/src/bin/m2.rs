// single-thread nesting workload for Miri borrow models
use a5::*;
fn main() {
    let mut acc = 0u64;
    for (i, (lon, lat, res)) in [(10.0, 20.0, 3), (179.99, -45.0, 7), (0.0, 89.9, 12), (-120.0, 31.7, 28)].iter().enumerate() {
        let id = lonlat_to_cell(LonLat::new(*lon, *lat), *res).unwrap();
        let c = cell_to_lonlat(id).unwrap();
        let b = cell_to_boundary(id, None).unwrap();
        let kids = cell_to_children(id, None).unwrap_or_default();
        let comp = compact(&kids).unwrap();
        acc ^= id ^ c.longitude().to_bits() ^ b.len() as u64 ^ comp.len() as u64 ^ i as u64;
    }
    println!("ok {acc:x}");
}
