// C16: Jacobian (central differences) of inverse projection; incl. reflected margin; seam avoidance by sector test
use a5::core::coordinate_transforms::to_cartesian;
use a5::coordinate_systems::Face;
use a5::projections::dodecahedron::DodecahedronProjection;
use a5::core::tiling::get_face_vertices;
use proto::*;
fn main() {
    let mut rng = Rng(5); let d = DodecahedronProjection::get_thread_local();
    let fv = get_face_vertices().get_vertices_vec().clone();
    let farea = { let mut a = 0.0; for i in 0..5 { a += fv[i].x()*fv[(i+1)%5].y()-fv[(i+1)%5].x()*fv[i].y(); } (a/2.0f64).abs() };
    let k = 4.0*std::f64::consts::PI/(12.0*farea);
    let sector = |x: f64, y: f64| -> (i64, bool) { let g = y.atan2(x); let s = (g/(std::f64::consts::PI/5.0)).floor() as i64; let q = (g/(2.0*std::f64::consts::PI/5.0)).round(); let beta = g - q*2.0*std::f64::consts::PI/5.0; ((s+10)%10, (x*x+y*y).sqrt()*beta.cos() > 0.6180339887498949) };
    let (mut worst_in, mut worst_out) = (0.0f64, 0.0f64); let (mut n_in, mut n_out, mut skipped) = (0, 0, 0); let mut ex = None; let mut bad = 0;
    for _ in 0..400000 { let f = rng.below(12) as u8; let r = 0.9 * rng.f().sqrt(); let g = rng.f()*std::f64::consts::TAU; let (cx, cy) = (r*g.cos(), r*g.sin());
        let h = 1e-6; let pts = [(cx+h, cy), (cx-h, cy), (cx, cy+h), (cx, cy-h)];
        let s0 = sector(cx, cy); if pts.iter().any(|p| sector(p.0, p.1) != s0) { skipped += 1; continue; }
        // margin limit: beyond-edge up to 0.15 past the edge
        let dist = poly_signed_dist(&fv, Face::new(cx, cy)); if dist > 0.12 { continue; }
        let sv: Vec<[f64;3]> = pts.iter().map(|p| { let c = to_cartesian(d.inverse(Face::new(p.0, p.1), f).unwrap()); [c.x(), c.y(), c.z()] }).collect();
        let dx = [ (sv[0][0]-sv[1][0])/(2.0*h), (sv[0][1]-sv[1][1])/(2.0*h), (sv[0][2]-sv[1][2])/(2.0*h) ]; let dy = [ (sv[2][0]-sv[3][0])/(2.0*h), (sv[2][1]-sv[3][1])/(2.0*h), (sv[2][2]-sv[3][2])/(2.0*h) ];
        let c = [dx[1]*dy[2]-dx[2]*dy[1], dx[2]*dy[0]-dx[0]*dy[2], dx[0]*dy[1]-dx[1]*dy[0]]; let j = (c[0]*c[0]+c[1]*c[1]+c[2]*c[2]).sqrt();
        let rel = (j/k - 1.0).abs();
        if dist > 0.0 && rel > 1e-4 { let g = cy.atan2(cx); let q = (g/(2.0*std::f64::consts::PI/5.0)).round(); let beta = (g - q*2.0*std::f64::consts::PI/5.0).to_degrees(); let along = (cx*cx+cy*cy).sqrt()*beta.to_radians().sin(); if n_out % 1 == 0 && bad < 40 { bad += 1; println!("bad margin probe: face {f} beyond-edge {dist:.4} beta {beta:.2} along-edge {along:.4} (half edge = 0.449) rel {rel:.2e}"); } }
        if dist <= 0.0 { n_in += 1; if rel > worst_in { worst_in = rel; ex = Some((f, cx, cy)); } } else { n_out += 1; if rel > worst_out { worst_out = rel; } } }
    println!("k={k:.9}; inside-face probes {n_in} worst |J/k-1|={worst_in:.2e} at {ex:?}; margin probes {n_out} worst={worst_out:.2e}; seam-skipped {skipped}");
}
