use a5::*;
use a5::core::cell::CellToBoundaryOptions;
use a5::core::origin::get_origins;
use a5::core::coordinate_transforms::{to_cartesian, to_lon_lat, to_spherical};
use a5::coordinate_systems::Cartesian;
use proto::*;
fn main() {
    let mut rng = Rng(9);
    let cs: Vec<[f64;3]> = get_origins().iter().map(|o| { let c = to_cartesian(o.axis); [c.x(), c.y(), c.z()] }).collect();
    // dodecahedron vertices: normalized sums of triples of mutually adjacent face centres
    let dot = |a: [f64;3], b: [f64;3]| a[0]*b[0]+a[1]*b[1]+a[2]*b[2];
    let mut verts = vec![]; for i in 0..12 { for j in i+1..12 { for k in j+1..12 { if dot(cs[i],cs[j]) > 0.4 && dot(cs[j],cs[k]) > 0.4 && dot(cs[i],cs[k]) > 0.4 { let s = [cs[i][0]+cs[j][0]+cs[k][0], cs[i][1]+cs[j][1]+cs[k][1], cs[i][2]+cs[j][2]+cs[k][2]]; let l = dot(s,s).sqrt(); verts.push([s[0]/l, s[1]/l, s[2]/l]); } } } }
    println!("{} dodecahedron vertices", verts.len());
    for res in 0..=29 { let expect = 4.0*std::f64::consts::PI / (if res == 0 { 12.0 } else { 60.0 * 4f64.powi(res-1) }); let size = expect.sqrt();
        let mut worst = 0.0f64; let mut ids = std::collections::HashSet::new(); let mut exid = 0;
        for v in &verts { for _ in 0..60 { let off = size * 1.5 * rng.f(); let a = rng.f()*6.283; // random tangent offset
            let t1 = { let a0 = if v[2].abs() < 0.9 { [0.0,0.0,1.0] } else { [1.0,0.0,0.0] }; let c = [a0[1]*v[2]-a0[2]*v[1], a0[2]*v[0]-a0[0]*v[2], a0[0]*v[1]-a0[1]*v[0]]; let l = dot(c,c).sqrt(); [c[0]/l,c[1]/l,c[2]/l] }; let t2 = [v[1]*t1[2]-v[2]*t1[1], v[2]*t1[0]-v[0]*t1[2], v[0]*t1[1]-v[1]*t1[0]];
            let p = [v[0]+off*(a.cos()*t1[0]+a.sin()*t2[0]), v[1]+off*(a.cos()*t1[1]+a.sin()*t2[1]), v[2]+off*(a.cos()*t1[2]+a.sin()*t2[2])];
            let ll = to_lon_lat(to_spherical(Cartesian::new(p[0], p[1], p[2])));
            let id = lonlat_to_cell(ll, res).unwrap(); if !ids.insert(id) { continue; }
            let ring = cell_to_boundary(id, Some(CellToBoundaryOptions{closed_ring:false, segments:Some(64)})).unwrap();
            let vs: Vec<[f64;3]> = ring.iter().map(|p| unit(p.longitude(), p.latitude())).collect();
            let ar = if res >= 12 { small_area(&vs) } else { sph_area(&vs) }; let rel = (ar/expect - 1.0).abs(); if rel > worst { worst = rel; exid = id; } } }
        println!("res {res:2}: distinct cells near dodecahedron vertices {} worst rel area err {worst:.2e} ({exid:#x})", ids.len()); }
}
