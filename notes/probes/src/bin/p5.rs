use a5::*;
use a5::core::cell::{a5cell_contains_point, CellToBoundaryOptions};
use a5::core::serialization::deserialize;
use proto::Rng;
fn main() {
    let mut rng = Rng(std::env::args().nth(2).map(|s| s.parse().unwrap()).unwrap_or(1));
    let n: usize = std::env::args().nth(1).map(|s| s.parse().unwrap()).unwrap_or(2000);
    for res in 2..=29 {
        let (mut f_rand, mut f_lowlat, mut n_lowlat, mut f_hostile, mut n_hostile) = (0, 0, 0, 0, 0);
        let mut worst_low: f64 = 1.0; let mut worst_h: f64 = 1.0; let mut exh = None; let mut exl = None;
        for _ in 0..n {
            let (lon, lat) = rng.lonlat();
            let p = LonLat::new(lon, lat);
            let id = lonlat_to_cell(p, res).unwrap();
            let c = deserialize(id).unwrap();
            let d = a5cell_contains_point(&c, p).unwrap();
            if d < 0.0 { f_rand += 1; }
            if lat.abs() < 70.0 { n_lowlat += 1; if d < 0.0 { f_lowlat += 1; if d < worst_low { worst_low = d; exl = Some((lon, lat)); } } }
            // hostile: points near vertices / edges of this cell
            let b = cell_to_boundary(id, Some(CellToBoundaryOptions{closed_ring: false, segments: Some(2)})).unwrap();
            let ctr = cell_to_lonlat(id).unwrap();
            for v in &b {
                for eps in [1e-3, 1e-6, 1e-9, -1e-9, -1e-6, -1e-3, 0.0] {
                    // move from vertex toward centre by fraction eps (negative: away)
                    let mut dl = ctr.longitude() - v.longitude(); if dl > 180.0 { dl -= 360.0; } if dl < -180.0 { dl += 360.0; }
                    let q = LonLat::new(v.longitude() + eps * dl, (v.latitude() + eps * (ctr.latitude() - v.latitude())).clamp(-90.0, 90.0));
                    if q.latitude().abs() > 70.0 { continue; }
                    n_hostile += 1;
                    let id2 = lonlat_to_cell(q, res).unwrap();
                    let d2 = a5cell_contains_point(&deserialize(id2).unwrap(), q).unwrap();
                    if d2 < -1e-9 { f_hostile += 1; if d2 < worst_h { worst_h = d2; exh = Some((q.longitude(), q.latitude(), id2)); } }
                }
            }
        }
        println!("res {res:2}: rand_fail={f_rand}/{n} lowlat_fail={f_lowlat}/{n_lowlat} worst={worst_low:.2e} {exl:?} hostile_fail(<-1e-9)={f_hostile}/{n_hostile} worst={worst_h:.2e} {exh:?}");
    }
}
