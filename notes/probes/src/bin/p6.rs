use a5::*;
use a5::core::cell::CellToBoundaryOptions;
use proto::*;
fn main() {
    let mut rng = Rng(std::env::args().nth(2).map(|s| s.parse().unwrap()).unwrap_or(1));
    let n: usize = std::env::args().nth(1).map(|s| s.parse().unwrap()).unwrap_or(2000);
    let latmax: f64 = std::env::args().nth(3).map(|s| s.parse().unwrap()).unwrap_or(70.0);
    for res in 0..=29 {
        let (mut f_h, mut n_h) = (0, 0); let mut worst: f64 = -1.0; let mut ex = None; let mut f_band = 0;
        let cell_size = (4.0*std::f64::consts::PI / get_num_cells(res) as f64).sqrt();
        for _ in 0..n {
            let (lon, lat) = rng.lonlat(); if lat.abs() > latmax { continue; }
            let p = LonLat::new(lon, lat);
            let id = lonlat_to_cell(p, res).unwrap();
            n_h += 1; let d0 = oracle_dist(id, p); if d0 > 1e-12 { f_h += 1; if d0 > worst { worst = d0; ex = Some((lon, lat, id)); } }
            let b = cell_to_boundary(id, Some(CellToBoundaryOptions{closed_ring: false, segments: Some(2)})).unwrap();
            let ctr = cell_to_lonlat(id).unwrap();
            for v in &b { for eps in [1e-2, 1e-4, 1e-6, 1e-9, 1e-12, -1e-12, -1e-9, -1e-6, -1e-4, -1e-2, 0.0] {
                let mut dl = ctr.longitude() - v.longitude(); if dl > 180.0 { dl -= 360.0; } if dl < -180.0 { dl += 360.0; }
                let q = LonLat::new(v.longitude() + eps * dl, (v.latitude() + eps * (ctr.latitude() - v.latitude())).clamp(-90.0, 90.0));
                if q.latitude().abs() > latmax { continue; }
                n_h += 1;
                let id2 = lonlat_to_cell(q, res).unwrap();
                let d = oracle_dist(id2, q);
                if d > 0.0 { f_band += 1; }
                if d > 1e-12 { f_h += 1; if d > worst { worst = d; ex = Some((q.longitude(), q.latitude(), id2)); } }
            } }
        }
        println!("res {res:2}: miss(>1e-12)={f_h}/{n_h} any_outside={f_band} worst={worst:.3e} rel_to_cell={:.3e} {ex:?}", worst / cell_size);
    }
}
