use a5::coordinate_systems::LonLat; use a5::core::coordinate_transforms::from_lon_lat; use proto::*;
fn main() { for lat in [10.0, 45.0, 80.0, 89.0, 89.9, 89.999, 89.99999, 89.9999999, 89.999999999f64] {
    let lib = from_lon_lat(LonLat::new(0.0, lat)).phi().get() ; let u = unit_robust(-93.0, lat); let psi = (u[0]*u[0]+u[1]*u[1]).sqrt().atan2(u[2]); let u0 = unit(0.0, lat); let psi0 = (u0[0]*u0[0]+u0[1]*u0[1]).sqrt().atan2(u0[2]);
    println!("lat {lat}: lib colat {lib:.17e} robust {psi:.17e} rel diff {:.2e}; naive {psi0:.17e} rel diff {:.2e}", (psi-lib)/lib, (psi0-lib)/lib); } }
