use a5::*;
use a5::core::cell::a5cell_contains_point;
use a5::core::serialization::deserialize;
use proto::Rng;
fn main() {
    let mut rng = Rng(1);
    let n: usize = std::env::args().nth(1).map(|s| s.parse().unwrap()).unwrap_or(2000);
    for res in 0..=29 {
        let mut fail = 0; let mut err = 0; let mut worst: f64 = 1.0; let mut wrongres = 0;
        let mut rt_fail = 0;
        let mut ex = None;
        for _ in 0..n {
            let (lon, lat) = rng.lonlat();
            let p = LonLat::new(lon, lat);
            match lonlat_to_cell(p, res) {
                Ok(id) => {
                    if get_resolution(id) != res { wrongres += 1; }
                    let c = deserialize(id).unwrap();
                    let d = a5cell_contains_point(&c, p).unwrap();
                    if d < 0.0 { fail += 1; if d < worst { worst = d; ex = Some((lon, lat, id)); } }
                    // round trip centre
                    let ctr = cell_to_lonlat(id).unwrap();
                    let id2 = lonlat_to_cell(ctr, res).unwrap();
                    if id2 != id { rt_fail += 1; }
                }
                Err(_) => err += 1,
            }
        }
        println!("res {res:2}: n={n} contain_fail={fail} worst={worst:.3e} err={err} wrongres={wrongres} centre_rt_fail={rt_fail} ex={ex:?}");
    }
}
