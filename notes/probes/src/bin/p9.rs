use a5::*;
use a5::core::cell::CellToBoundaryOptions;
use a5::core::origin::get_origins;
use a5::core::coordinate_transforms::{to_lon_lat, to_spherical, to_cartesian};
use a5::coordinate_systems::Cartesian;
use proto::*;
fn norm(v: [f64;3]) -> [f64;3] { let l = (v[0]*v[0]+v[1]*v[1]+v[2]*v[2]).sqrt(); [v[0]/l, v[1]/l, v[2]/l] }
fn main() {
    let n: usize = std::env::args().nth(1).map(|s| s.parse().unwrap()).unwrap_or(2000);
    let seed0: u64 = std::env::args().nth(2).map(|s| s.parse().unwrap()).unwrap_or(1);
    let hs: Vec<_> = (0..16).map(|t| std::thread::spawn(move || {
        let mut rng = Rng(seed0 * 1000 + t);
        let centers: Vec<[f64;3]> = get_origins().iter().map(|o| { let c = to_cartesian(o.axis); [c.x(), c.y(), c.z()] }).collect();
        let mut miss: Vec<(String, f64, f64, i32, u64, f64)> = vec![]; let mut total = 0u64; let mut kinds = std::collections::BTreeMap::<&str, u64>::new();
        for _ in 0..n {
            let res = rng.below(30) as i32;
            let kind = rng.below(8);
            let (name, pts): (&str, Vec<LonLat>) = match kind {
                0 => ("uniform", vec![{ let (a, b) = rng.lonlat(); LonLat::new(a, b) }]),
                1 => ("polar", vec![{ let lat = 90.0 - 10f64.powf(-rng.f() * 14.0) * 12.0; let s = if rng.below(2) == 0 { 1.0 } else { -1.0 }; LonLat::new(rng.f() * 720.0 - 360.0, s * lat) }, LonLat::new(rng.f()*360.0-180.0, 90.0), LonLat::new(rng.f()*360.0-180.0, -90.0)]),
                2 => ("antimeridian", vec![{ let d = 10f64.powf(-rng.f() * 14.0); let s = if rng.below(2) == 0 { 1.0 } else { -1.0 }; LonLat::new(180.0 * s + d * (rng.f() - 0.5), rng.f() * 180.0 - 90.0) }]),
                3 | 4 => { // seam: great circle between two adjacent face centres' bisector: point p = normalize(a*(1+d) + b*(1-d)) + along-edge variation
                    let i = rng.below(12) as usize; let mut j = rng.below(12) as usize; 
                    let dot = |a: [f64;3], b: [f64;3]| a[0]*b[0]+a[1]*b[1]+a[2]*b[2];
                    let mut tries = 0; while (j == i || dot(centers[i], centers[j]) < 0.4) && tries < 100 { j = rng.below(12) as usize; tries += 1; }
                    let a = centers[i]; let b = centers[j];
                    // third direction along the edge
                    let c = norm([a[1]*b[2]-a[2]*b[1], a[2]*b[0]-a[0]*b[2], a[0]*b[1]-a[1]*b[0]]);
                    let t = if kind == 3 { (rng.f() - 0.5) * 0.72 } else { let s = if rng.below(2)==0 {1.0} else {-1.0}; s * (0.3568220897730899_f64 / 0.9341723589627157 * 1.0).atan().tan() * (1.0 - 10f64.powf(-rng.f()*14.0)) }; // kind 4 -> near dodecahedron vertex (approx)
                    let d = 10f64.powf(-rng.f() * 15.0) * if rng.below(2) == 0 { 1.0 } else { -1.0 };
                    let m = norm([a[0]+b[0], a[1]+b[1], a[2]+b[2]]);
                    let e = norm([a[0]-b[0], a[1]-b[1], a[2]-b[2]]);
                    let p = norm([m[0] + t*c[0] + d*e[0], m[1] + t*c[1] + d*e[1], m[2] + t*c[2] + d*e[2]]);
                    (if kind == 3 { "seam" } else { "dodec-vertex" }, vec![to_lon_lat(to_spherical(Cartesian::new(p[0], p[1], p[2])))])
                }
                _ => { // cell-edge hugging: take a random cell, pick points along its boundary ring (n segments) displaced by tiny amounts
                    let (a, b) = rng.lonlat(); let id = lonlat_to_cell(LonLat::new(a, b), res).unwrap();
                    if res == 0 && false { ("x", vec![]) } else {
                    let segs = 1 + rng.below(7) as i32;
                    let ring = cell_to_boundary(id, Some(CellToBoundaryOptions{closed_ring:false, segments: Some(segs)})).unwrap();
                    let ctr = cell_to_lonlat(id).unwrap();
                    let mut v = vec![];
                    for q in &ring { let eps = 10f64.powf(-rng.f()*16.0) * if rng.below(2)==0 {1.0} else {-1.0}; let eps = if rng.below(4)==0 { 0.0 } else { eps };
                        let mut dl = ctr.longitude() - q.longitude(); if dl > 180.0 { dl -= 360.0; } if dl < -180.0 { dl += 360.0; }
                        v.push(LonLat::new(q.longitude() + eps*dl, (q.latitude() + eps*(ctr.latitude()-q.latitude())).clamp(-90.0, 90.0))); }
                    ("cell-edge", v) }
                }
            };
            for p in pts { total += 1; *kinds.entry(name).or_default() += 1;
                match lonlat_to_cell(p, res) { Ok(id) => { let d = oracle_dist(id, p); if !(d <= 1e-12) || get_resolution(id) != res { miss.push((name.to_string(), p.longitude(), p.latitude(), res, id, d)); } }, Err(e) => miss.push((format!("{name} ERR {e}"), p.longitude(), p.latitude(), res, 0, 0.0)) } }
        }
        (total, miss, kinds)
    })).collect();
    let mut total = 0; let mut all = vec![]; let mut kinds = std::collections::BTreeMap::<&str, u64>::new();
    for h in hs { let (t, m, k) = h.join().unwrap(); total += t; all.extend(m); for (a, b) in k { *kinds.entry(a).or_default() += b; } }
    println!("total lookups {total} by kind {kinds:?}; misses {}", all.len());
    let mut bykind = std::collections::BTreeMap::<String, usize>::new(); for m in &all { *bykind.entry(format!("{} res{}", m.0, m.3)).or_default() += 1; }
    println!("{bykind:?}");
    for m in all.iter().take(25) { println!("{m:?}"); }
}
