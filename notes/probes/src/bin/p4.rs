use a5::*;
use proto::Rng;
use std::collections::BTreeSet;
// reference model: canonical compaction via set, bottom-up
fn parent(c: u64) -> u64 { cell_to_parent(c, None).unwrap() }
fn model_compact(cells: &[u64]) -> BTreeSet<u64> {
    // remove cells covered by an ancestor present in set, then merge complete sibling groups
    let mut set: BTreeSet<u64> = cells.iter().copied().collect();
    // drop covered
    let all: Vec<u64> = set.iter().copied().collect();
    for &c in &all { let mut r = get_resolution(c); let mut a = c; let mut covered = false; while r > -1 { a = parent(a); r -= 1; if set.contains(&a) { covered = true; break; } } if covered { set.remove(&c); } }
    loop {
        let mut changed = false;
        for res in (0..=29).rev() {
            let at: Vec<u64> = set.iter().copied().filter(|&c| get_resolution(c) == res).collect();
            let mut by_parent: std::collections::BTreeMap<u64, Vec<u64>> = Default::default();
            for c in at { by_parent.entry(parent(c)).or_default().push(c); }
            for (p, kids) in by_parent { let need = if res == 0 { 12 } else if res == 1 { 5 } else { 4 }; if kids.len() == need { for k in kids { set.remove(&k); } set.insert(p); changed = true; } }
        }
        if !changed { break; }
    }
    set
}
fn expand(cells: &[u64], r: i32) -> BTreeSet<u64> { let mut s = BTreeSet::new(); for &c in cells { for k in cell_to_children(c, Some(r)).unwrap() { s.insert(k); } } s }
fn main() {
    let res0 = get_res0_cells().unwrap();
    println!("compact(res0) = {:x?}", compact(&res0).unwrap());
    let mut v: Vec<u64> = res0[..11].to_vec(); v.extend(cell_to_children(res0[11], Some(1)).unwrap());
    println!("compact(11 base + 5 quintants of face 11) = {:x?}", compact(&v).unwrap());
    let mut v: Vec<u64> = res0[1..].to_vec(); v.extend(cell_to_children(res0[0], Some(1)).unwrap());
    println!("compact(5 quintants of face 0 + 11 base) = {:x?}", compact(&v).unwrap());
    let mut v: Vec<u64> = res0[..5].to_vec(); v.extend(res0[6..].iter()); v.extend(cell_to_children(res0[5], Some(2)).unwrap());
    println!("compact(res2 of face 5 + 11 base) = {:x?}", compact(&v).unwrap());
    let all1 = cell_to_children(0, Some(1)).unwrap(); println!("compact(all res1) = {:x?}", compact(&all1).unwrap());
    let all3 = cell_to_children(0, Some(3)).unwrap(); println!("compact(all res3) = {:x?}", compact(&all3).unwrap());
    // overlapping: parent + its child
    let c = cell_to_children(res0[2], Some(3)).unwrap(); println!("compact(parent+child) = {:x?}", compact(&[res0[2], c[7]]).unwrap());
    // random antichains
    let mut rng = Rng(std::env::args().nth(1).map(|s| s.parse().unwrap()).unwrap_or(1));
    let mut bad_cover = 0; let mut bad_canon = 0; let mut bad_idem = 0; let mut n = 0; let mut ex = vec![];
    for it in 0..3000 {
        // build antichain by recursive subdivision from root
        let root = match rng.below(4) { 0 => 0u64, 1 => res0[rng.below(12) as usize], _ => { let r = 1 + rng.below(6) as i32; let a = cell_to_children(0, Some(1)).unwrap(); let mut c = a[rng.below(60) as usize]; for _ in 1..r { let k = cell_to_children(c, None).unwrap(); c = k[rng.below(k.len() as u64) as usize]; } c } };
        let mut front = vec![root]; let mut leaves = vec![];
        let maxdepth = get_resolution(root) + 1 + rng.below(4) as i32;
        while let Some(c) = front.pop() { let r = get_resolution(c); if r < maxdepth && r < 29 && rng.below(100) < 60 { front.extend(cell_to_children(c, None).unwrap()); } else { leaves.push(c); } }
        // delete some
        let del = rng.below(100); let mut cells: Vec<u64> = leaves.into_iter().filter(|_| rng.below(100) >= del.min(30)).collect();
        if cells.is_empty() { continue; }
        // shuffle
        for i in (1..cells.len()).rev() { let j = rng.below(i as u64 + 1) as usize; cells.swap(i, j); }
        n += 1;
        let out = compact(&cells).unwrap();
        let rmax = cells.iter().map(|&c| get_resolution(c)).max().unwrap();
        let e_in = expand(&cells, rmax);
        let ok_res = out.iter().all(|&c| get_resolution(c) <= rmax);
        let e_out = if ok_res { expand(&out, rmax) } else { BTreeSet::new() };
        if e_in != e_out { bad_cover += 1; if ex.len() < 3 { ex.push((it, "cover", cells.clone(), out.clone())); } }
        let m = model_compact(&cells);
        let o: BTreeSet<u64> = out.iter().copied().collect();
        if o != m { bad_canon += 1; if ex.len() < 6 { ex.push((it, "canon", cells.clone(), out.clone())); } }
        let again = compact(&out).unwrap(); if again.iter().copied().collect::<BTreeSet<_>>() != o { bad_idem += 1; }
    }
    println!("n={n} bad_cover={bad_cover} bad_canon={bad_canon} bad_idem={bad_idem}");
    for (it, k, i, o) in ex.iter().take(4) { if i.len() <= 40 { println!("{it} {k} in={:x?}\n   out={:x?}", i, o); } else { println!("{it} {k} in.len={} out.len={}", i.len(), o.len()); } }
}
