import subprocess, sys, collections, resource
prof = sys.argv[1]
exe = f"/tmp/proto/target/{prof}/p3"
def lim():
    resource.setrlimit(resource.RLIMIT_AS, (1<<30, 1<<30))
start = 0
sig = collections.OrderedDict()
total = int(subprocess.run([exe, str(2**64-1)], capture_output=True, text=True).stdout.split()[1])
while start < total:
    try:
        p = subprocess.run([exe, str(start)], capture_output=True, text=True, timeout=2, preexec_fn=lim)
        out = p.stdout; kind = f"exit{p.returncode}"
    except subprocess.TimeoutExpired as e:
        out = (e.stdout or b"").decode() if isinstance(e.stdout, bytes) else (e.stdout or ""); kind = "TIMEOUT"
    lines = out.strip().split("\n")
    last_c = None
    for l in lines:
        if l.startswith("C "): last_c = l
        elif l.startswith("R "):
            parts = l.split(" ", 3)
            if parts[2] == "PANIC":
                key = ("PANIC", last_c.split(" ",2)[2].split("(")[0], parts[3][:80])
                sig.setdefault(key, [0, last_c]); sig[key][0] += 1
            last_c = None
    if last_c is not None:  # open call: crashed/hung
        idx = int(last_c.split()[1])
        key = (kind, last_c.split(" ",2)[2].split("(")[0], "")
        sig.setdefault(key, [0, last_c]); sig[key][0] += 1
        start = idx + 1
    else:
        break
for k, v in sig.items(): print(v[0], k, "e.g.", v[1][:120])
print("total calls", total)
