#!/bin/bash
# For every seeded change that touches the projections, the vector utilities or the coordinate conversions: how many
# discontinuities does the run-time scan (harness/src/loci.rs) locate on the changed tree?  Uses a scratch worktree and a scratch
# copy of the harness under /tmp; nothing in /repo or /verif/harness is touched.   usage: tools/loci_table.sh > seeded/LOCI.txt
set -u
W=/tmp/loci-table
rm -rf $W; mkdir -p $W
git -C /repo worktree add -f --detach $W/repo HEAD >/dev/null 2>&1
rsync -a --exclude target /verif/harness/ $W/harness/
sed -i "s#path = \"/repo\"#path = \"$W/repo\"#" $W/harness/Cargo.toml
cd $W/harness && CARGO_NET_OFFLINE=true cargo build --release --offline --bin a5mon >/dev/null 2>&1
echo "unchanged tree: $($W/harness/target/release/a5mon loci 1 quick | head -1 | grep -o '"loci.discontinuities_located", [0-9]*')"
for d in /verif/seeded/C*/; do
  d=${d%/}; id=$(basename $d)
  grep -q "^+++ b/src/\(projections\|utils\|core/coordinate_transforms\|geometry\)" $d/patch.diff || continue
  git -C $W/repo checkout -q -- . && git -C $W/repo apply $d/patch.diff || { echo "$id patch failed"; continue; }
  (cd $W/harness && CARGO_NET_OFFLINE=true cargo build --release --offline --bin a5mon >/dev/null 2>&1)
  n=$($W/harness/target/release/a5mon loci 1 quick | head -1 | grep -o '"loci.discontinuities_located", [0-9]*' | grep -o '[0-9]*$')
  echo "$id located=$n"
done
git -C $W/repo checkout -q -- .
git -C /repo worktree remove --force $W/repo; git -C /repo worktree prune
rm -rf $W
