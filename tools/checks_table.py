CHECKS = {
 "C01": dict(technique="runtime monitoring: geometric invariant monitor (signed-distance oracle) over seeded hostile lookups",
   level="exploration: every lonlat_to_cell call of a seeded hostile workload (poles, antimeridian, face seams, dodecahedron vertices, face centres, points 0..1e-16 from cell edges and vertices, wrapped longitudes, all 30 resolutions) is judged by an independent planar signed-distance oracle and, for a quarter of the calls, by a public-API-only ring oracle; a continuum of inputs cannot be enumerated, so the verdict is 'held on the 2e6 (quick) / 2e8 (thorough) calls observed'",
   note="trusts: the library's forward projection and planar cell placement for the hair-splitting oracle O1 (judged separately by C15/C16/C03 and cross-checked by O2, which uses only cell_to_boundary and a closed-form authalic latitude); the band 1e-12 rad (+ one ulp of the input longitude) is the one stated in the property",
   design="§6 C01, §4 O1/O2"),
}
