# id -> technique / level text / trusted base / DESIGN.md reference. Read by tools/mkmanifest.py.
# BUILT lists the properties whose monitor exists; the others are reported under not_applicable until then.
BUILT = ["C%02d" % i for i in range(1, 21)]

_ALL = {
 "C01": dict(technique="runtime monitoring: geometric invariant monitor (signed-distance oracle + public-API ring oracle) over seeded hostile lookups with history priming (twin cells, coordinate twins)",
   level="exploration: every lonlat_to_cell call of a seeded hostile workload (poles, antimeridian, face seams, dodecahedron vertices, face centres, points 0..1e-16 from cell edges and vertices, wrapped longitudes, all 30 resolutions) is judged by an independent planar signed-distance oracle and, for a quarter of the calls, by a public-API-only ring oracle; a continuum of inputs cannot be enumerated, so the verdict is 'held on the 2e6 (quick) / 2e8 (thorough) calls observed'",
   note="trusts: the library's forward projection and planar cell placement for the hair-splitting oracle O1 (judged separately by C15/C16/C03 and cross-checked by O2, which uses only cell_to_boundary and a closed-form authalic latitude); the band 1e-12 rad (+ one ulp of the input longitude) is the one stated in the property",
   design="§6 C01, §4 O1/O2"),
 "C02": dict(technique="runtime monitoring: round-trip monitor (cell -> reported centre / interior points -> lookup) with oracle-admitted interior points and history priming",
   level="exploration: every cell of resolutions 0..4 (quick) / 0..7 (thorough) exhaustively, stratified constructed cells for the finer resolutions up to 29 and the cells reached by hostile point classes (poles, seams, vertices); interior points are proposed by the generator and admitted by the oracle (inside the planar polygon by more than the tolerance, or inside the reported ring by more than its band)",
   note="trusts: O1/O2 for admitting interior points (a point the oracle cannot certify as interior is skipped and counted, never judged)",
   design="§6 C02"),
 "C03": dict(technique="runtime monitoring: partition monitor counting containing cells per query point over all / neighbouring cells (planar oracle and public-API ring variant), with history priming",
   level="exploration with exhaustive sub-spaces: for r <= 4 (quick) / r <= 5 (thorough) every cell is a candidate for every query point through a spatial index over reported centres, and every cell's ring points are nudged inwards and outwards; for r up to 29 the candidates are the two-ring neighbourhood found by lookups; verdict = no point strictly inside two cells, no point outside all",
   note="trusts: O1 (planar placement + forward projection) for strict containment, restricted to the faces a cell can reach; a public-API-only ring variant re-checks the coarse resolutions",
   design="§6 C03"),
 "C04": dict(technique="runtime monitoring: area monitor re-measuring reported rings (64 segments per edge) with an independent spherical-area oracle",
   level="exploration with exhaustive sub-spaces: every cell for r <= 4 (quick) / r <= 6 (thorough) incl. the conservation sum = 4 pi, stratified and hostile cells for every resolution up to 29; metadata (cell_area, get_num_cells) compared with exact integer counts for all 31 resolutions",
   note="trusts: closed-form WGS84 authalic latitude (colatitude form) and the Van Oosterom-Strackee / tangent-plane area formulas of the harness (unit-tested against exact cases); sampling cells alone cannot find a discontinuity of the projection that only cells straddling a line of measure zero see (seeded change C04-3: probability ~6e-9 per random cell); such lines are located by the run-time scan first (jumps above 2e-13 rad) and cells are then taken on them",
   design="§6 C04, §4 O3/O6/O8, §13"),
 "C05": dict(technique="runtime monitoring: reference-model monitor (independent bit-layout model run in lock-step) + canonical-form filter on every id returned by the API",
   level="exploration with an exhaustive sub-space: all 5.2e6 tuples of resolution <= 9 (quick; 8.4e7 of resolution <= 11 thorough) are encoded, decoded and checked for distinctness against the documented layout; resolutions 10..29 on all 60 face x quintant with boundary / bit-pattern / random positions; hex codec on single bits, boundaries, every encoding, 6e6 random values and 1e6 random strings incl. non-hex and non-ASCII; 2e6 ids returned by lookups, hierarchy and compaction calls pass the canonical filter",
   note="trusts: the model's copy of the layout (6 bits face / 5*face+quintant, 2 bits per level, marker, zeros) and of the per-face first-quintant table, both transcribed from the specification",
   design="§6 C05, §4 O4"),
 "C06": dict(technique="runtime monitoring: offline checker replaying a frozen event log recorded from the reference release (v0.6.2, d731376)",
   level="exploration against a recorded history: every record of the frozen table (5.9e4 records; lookups admitted where the reference's answer contained the point away from the edge band; centres and corners admitted where the reference's own output was self-consistent) is replayed against the current tree; the table covers every face x quintant (hence every curve orientation) at every resolution plus hostile point classes; the thorough tier additionally rebuilds the reference release from /repo's own history (commit d731376) in a scratch worktree, records a fresh, seed-dependent table 40x as large (about 2e6 records) and replays it too (differential monitoring against the reference release)",
   note="trusts: the golden table generated once from a worktree of d731376 by the same harness (golden/README.md records how); physical distances measured with the closed-form authalic latitude; a table of the reference release cannot contain inputs that only become wrong because of a change (seeded change C06-10: pockets in which a shortened probe spiral finds nothing) - those are C01's hook-guided search",
   design="§6 C06"),
 "C07": dict(technique="runtime monitoring: reference-model monitor (tree model in lock-step with cell_to_children / cell_to_parent)",
   level="exploration with an exhaustive sub-space: every cell of resolution -1..7 (quick) / -1..9 (thorough) with its children at the next levels, ancestor composition and the 'children of all cells of r enumerate r+1 exactly once' count; random and pattern cells up to resolution 29 with every target whose fan-out is <= 4^8",
   note="trusts: the tree model (drop / append two bits per level, 12 / 5 / 4 fan-out) written from the specification",
   design="§6 C07, §4 O5"),
 "C08": dict(technique="runtime monitoring: reference-model monitor (interval model of the covered leaf set) over seeded cell multisets",
   level="exploration: 2e5 (quick) / 6e6 (thorough) multisets - antichains by recursive subdivision and deletion from any root, complete subdivisions, multi-face mixes of base cells / quintants / finer cells, ancestor+descendant overlaps, each presented in two random permutations with duplicated elements - plus a deterministic corpus of the low-resolution sets that defeated the pinned tree",
   note="trusts: the interval model of descendants (exact integer arithmetic) and, for the cross-check, the library's uncompact (judged on its own by C09)",
   design="§6 C08/C10, §4 O7"),
 "C09": dict(technique="runtime monitoring: reference-model monitor (tree model) over seeded cell lists",
   level="exploration: 4e5 (quick) / 1e7 (thorough) lists of 1..50 valid cells of mixed resolutions incl. world and base cells and duplicates, all targets -1..29 with total fan-out <= 4^8, 12% of them with an input finer than the target (must be Err)",
   note="trusts: the tree model", design="§6 C09"),
 "C10": dict(technique="runtime monitoring: reference-model monitor (set-semantics compaction model: unique maximal antichain) over seeded non-overlapping cell sets",
   level="exploration: 2e5 (quick) / 6e6 (thorough) non-overlapping sets, half of them mixing base cells, quintants and finer cells of several faces so that sibling groups complete only after earlier merges; each is also refined into a different antichain covering the same region and must compact to the same set",
   note="trusts: the compaction model (drop covered cells, merge complete 12/5/4 groups bottom-up to a fixed point)",
   design="§6 C08/C10, §4 O7"),
 "C11": dict(technique="runtime monitoring: structural invariant monitor on every reported ring (length, closure, finiteness, orientation, winding about the centre, longitude window, corner stability)",
   level="exploration with an exhaustive sub-space: all cells r <= 3 (quick) / r <= 5 (thorough) x 7 subdivision settings x closed/open; hostile cells (antimeridian, poles, seams, vertices) at every resolution with random n in 1..64",
   note="trusts: the winding-number / spherical-area oracles of the harness; 'touches a pole' is decided by the ring's winding about the pole and its distance to it, not by a latitude threshold",
   design="§6 C11"),
 "C12": dict(technique="runtime monitoring: geometric invariant monitor (Sutherland-Hodgman clipping of child against parent polygons, centre distances)",
   level="exploration with an exhaustive sub-space: every parent of resolution 0..5 (quick) / 0..7 (thorough), stratified parents of every resolution up to 28 over face x quintant (hence all 6 curve orientations) x position patterns",
   note="trusts: the library's planar placement of parent and children (same face plane), the harness' clipping and area code (unit-tested)",
   design="§6 C12"),
 "C13": dict(technique="runtime monitoring + sanitizers: offline checker over per-thread event logs (bitwise comparison with cold single-call executions; twin / chain / ladder families, repeat sweep, first-touch processes), Miri (Stacked and Tree Borrows, data-race detector, many seeds) and ThreadSanitizer",
   level="exploration of schedules and histories: N in {2,4,16,64} threads run random histories over few keys from cold caches behind a barrier, with thread churn; every result is compared bit for bit with the same call executed first in a fresh thread; fresh processes race the one-shot global initialisations; hook H2 proves every one of the 270 memo slots was seen cold and warm; Miri interprets the unsafe thread-local block under 8 (quick) / 48 (thorough) scheduler seeds for each of Stacked and Tree Borrows; ThreadSanitizer re-runs the native workload incl. the first-touch processes in both tiers",
   note="trusts: Miri's and TSan's models of the Rust memory model; Miri runs with -Zmiri-deterministic-floats (otherwise it perturbs libm results on purpose) and -Zmiri-ignore-leaks (the per-thread projection object is leaked by design)",
   design="§6 C13"),
 "C14": dict(technique="runtime monitoring: call/return log written by a sandboxed child process (RLIMIT_AS, per-call watchdog), in an overflow-checked and a release build, validity oracle on every Ok result",
   level="exploration: 2e6 (quick) / 4e7 (thorough) hostile calls per build profile over all public functions - random / masked / single-bit / marker-only ids, world aliases, stray bits, face fields beyond the last face, every interesting i32 resolution, finite coordinates incl. +-f64::MAX and |lat| > 90; a call that never returns stays open in the log and is attributed",
   note="trusts: the id layout model for judging returned ids; liveness is restated as bounded progress (10 s per call, 2 GiB address space; three orders of magnitude above the slowest legitimate call)",
   design="§6 C14"),
 "C15": dict(technique="runtime monitoring: round-trip / range monitor on DodecahedronProjection::forward and ::inverse",
   level="exploration: 6e6 (quick) / 3e8 (thorough) sphere and plane points - uniform, on / near the 30 edges, 20 vertices, 12 centres and the internal triangle seams, where the closed-form shortcuts switch - relative to the nearest and the second-nearest face",
   note="trusts: true angular distances (atan2 form) and the harness' signed distance to the face pentagon built from the documented constants",
   design="§6 C15"),
 "C16": dict(technique="runtime monitoring: Jacobian monitor (adaptive central differences of the inverse projection, converged small triangles) with an anomaly -> zoom stage that localises tiny discontinuities",
   level="exploration: 6e6 (quick) / 3e8 (thorough) stencils (adaptive step, as close as 1e-6 to the corners of the projection's triangles) and converged small-triangle areas over all 12 faces, each of the 10 sectors and the reflected margin beyond the edge, concentrated at centre, seams, edge midpoints and corners; stencils straddling a seam or the edge are skipped and counted",
   note="trusts: k = 4 pi / (12 planar face areas) with the face area computed from the documented constants; central differences with h = min(1e-6, 0.01 x distance to the nearest triangle corner) >= 1e-8 (truncation <= 1e-5 next to a corner, 1e-8 elsewhere)",
   design="§6 C16"),
 "C17": dict(technique="runtime monitoring: bijection monitor over the curve functions (s_to_anchor, get_pentagon_vertices, ij_to_s), exhaustive for small depths, with back-to-back neighbours and an interleaved replay pass",
   level="exploration with an exhaustive sub-space: all 4^n positions for n <= 9 (quick) / n <= 12 (thorough) x 6 orientations (distinct centres, inside the quintant triangle, locate(centre) = s); digit-pattern and random positions for n up to 28",
   note="trusts: exact dyadic arithmetic of the lattice for the distinctness hash; the triangle u,v,w from the documented constants",
   design="§6 C17"),
 "C18": dict(technique="runtime monitoring: frame monitor (pairwise angles of the 12 reported centres, documented orientation) + nearest-face and relabelling monitors",
   level="exploration with exhaustive sub-spaces: all 66 face pairs and all 60 face x quintant relabellings are enumerated; nearest-face selection on 1.2e7 (quick) / 4e8 (thorough) points, uniform and within 1e-9 of the seams and vertices",
   note="trusts: the closed-form authalic latitude for turning reported centres into directions; ties within 1e-9 rad of a seam are not judged",
   design="§6 C18"),
 "C19": dict(technique="runtime monitoring: round-trip / monotonicity monitor on the authalic and lon/lat conversions against a closed-form oracle",
   level="exploration: dense grid of 8e6 latitudes + 4e6 random (quick), 1e8 + 1e8 (thorough); lon/lat pairs incl. poles, antimeridian and longitudes in [-540, 540]",
   note="trusts: the closed-form authalic latitude (q-function, e^2 from f = 1/298.257223563)",
   design="§6 C19"),
 "C20": dict(technique="runtime monitoring: order monitor on ids returned by cell_to_parent / cell_to_children (integer comparison against the hierarchy)",
   level="exploration with an exhaustive sub-space: all adjacent position pairs of resolutions 2..7 (quick) / 2..9 (thorough) incl. across quintant and face borders; 3e6 (quick) / 6e7 (thorough) random, nearby and parent-boundary-straddling pairs and subtree interval checks at resolutions up to 29",
   note="trusts: the position order (face, quintant code, s) of the model for picking neighbours just outside a subtree",
   design="§6 C20"),
}
# mechanisms shared by groups of monitors (DESIGN 12d)
for _k in ("C01", "C02", "C03", "C04", "C11", "C12", "C15", "C16"):
    _ALL[_k]["technique"] += "; hostile places include the discontinuities of the projection and the geographic conversions located by a run-time scan of the tree under test"
for _k in ("C01", "C02", "C03", "C04", "C07", "C08", "C09", "C10", "C11", "C12", "C18", "C19", "C20"):
    _ALL[_k]["technique"] += "; judged calls are preceded now and then by rejected calls on the library's error paths"
_ALL["C05"]["level"] += "; parent / children calls are also issued on accepted stray-bit spellings of cells (canonical-form filter on what they return)"
_ALL["C09"]["level"] += "; one list in five contains family runs (children of one cell in order, swapped, shuffled, with repeats, all equal, with a stranger)"
_ALL["C06"]["level"] += "; two accepted non-canonical spellings of every recorded id of resolution >= 2 must have the reference centre"
_ALL["C08"]["level"] += "; cell sets include the sparse border family (k lone cells + one complete group, k around 16 ... 8192)"
_ALL["C10"]["level"] += "; cell sets include the sparse border family (k lone cells + one complete group, k around 16 ... 8192)"
_ALL["C09"]["level"] += "; one judged list in six is issued again with accepted non-canonical spellings and must give the same output"
_ALL["C18"]["level"] += "; a quarter of the points is also judged with theta wound by 1e2..9e8 whole turns (ties: 1e-9 + two ulps of the wound angle)"
_ALL["C20"]["level"] += "; default-target parents of a quarter of the pairs are compared too, the smaller cell in an accepted non-canonical spelling"
_ALL["C04"]["level"] += "; one cell in eight is also measured through an accepted non-canonical spelling of its id"
_ALL["C11"]["level"] += "; the option-less ring of an accepted non-canonical spelling must equal the cell's, bit for bit"
_ALL["C09"]["level"] += "; long lists get coarser cells mixed in; a list that cell_to_children accepts element-wise may not be rejected"
_ALL["C10"]["level"] += "; a third of the sets is compacted again with half of the cells in accepted non-canonical spellings and one cell repeated in another spelling: same list required"
_ALL["C14"]["level"] += "; an Ok answer of a single-cell call for a word whose face / quintant field denotes no cell is a violation"
_ALL["C15"]["level"] += "; points of every face (half of them on a triangle seam) are also presented with theta wound by 1e2..9e8 whole turns and judged against the direction of the wound coordinates"
_ALL["C16"]["level"] += "; a cell_reach stage measures the Jacobian on the planar outlines of real edge- and vertex-straddling cells (library's get_pentagon) and counts outline points outside the assumed margin (none observed)"
for _k in _ALL:
    if _k != "C14":
        _ALL[_k]["technique"] += "; the monitor is repeated at reduced budget in an overflow-checked / debug-assertion build"
CHECKS = {k: v for k, v in _ALL.items() if k in BUILT}
