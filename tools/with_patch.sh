#!/bin/bash
# usage: tools/with_patch.sh <patch-file|-R:commit> <command...>
# applies a change to /repo's working tree, runs the command, and always restores the tree afterwards
set -u
spec="$1"; shift
cd /repo || exit 2
if [ -n "$(git status --porcelain --untracked-files=no)" ]; then echo "/repo working tree is not clean" >&2; exit 2; fi
if [[ "$spec" == -R:* ]]; then
  git show "${spec#-R:}" | git apply -R || { echo "cannot reverse-apply ${spec#-R:}" >&2; git checkout -- .; exit 2; }
else
  git apply "$spec" || { echo "cannot apply $spec" >&2; git checkout -- .; exit 2; }
fi
cd /verif
"$@"
rc=$?
git -C /repo checkout -- .
exit $rc
