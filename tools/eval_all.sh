#!/bin/bash
# evaluates every seeded change that has no detection.json yet: confirm in a scratch worktree, then run all quick checks
exec 9>/verif/.work/eval_all.lock
flock -n 9 || { echo "another eval_all is running"; exit 0; }
cd /verif
while true; do
  next=""
  for d in seeded/*/; do
    d=${d%/}
    [ -f "$d/patch.diff" ] || continue
    [ -f "$d/detection.json" ] && continue
    next=$d; break
  done
  [ -z "$next" ] && break
  echo "=== $next $(date +%H:%M:%S)"
  if [ ! -f "$next/confirmation.json" ]; then
    python3 tools/eval_seeded.py confirm "$next" | tail -1
  fi
  if grep -q '"confirmed": true' "$next/confirmation.json"; then
    python3 tools/eval_seeded.py detect "$next"
  else
    echo '{"_not_confirmed": {"exit": -1, "fired": false}}' > "$next/detection.json"
    echo "NOT CONFIRMED: $next"
  fi
done
echo "eval_all done $(date +%H:%M:%S)"
