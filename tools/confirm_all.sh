#!/bin/bash
# confirms (scratch worktrees under /tmp, never /repo's working tree) every seeded change that has no confirmation.json yet,
# N at a time.   usage: tools/confirm_all.sh [N]
cd /verif
N=${1:-4}
ls -d seeded/*/ | while read d; do d=${d%/}; [ -f "$d/patch.diff" ] && [ ! -f "$d/confirmation.json" ] && echo $d; done \
  | xargs -P $N -I{} sh -c 'python3 tools/eval_seeded.py confirm {} > /dev/null 2>&1; echo "{} $(grep -o "\"confirmed\": [a-z]*" {}/confirmation.json)"'
echo "confirm_all done $(date +%H:%M:%S)"
