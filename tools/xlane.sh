#!/bin/bash
# xlane.sh <k> <seeded-id> <ids...>: one-off lane evaluating given checks against one change
k=$1; name=$2; shift 2
L=/tmp/lane$k
rm -rf $L; mkdir -p $L
git -C /repo worktree remove --force $L/repo 2>/dev/null
git -C /repo worktree add -f --detach $L/repo HEAD >/dev/null 2>&1
rsync -a --exclude target --exclude .work --exclude seeded --exclude .git --exclude evidence --exclude replays /verif/ $L/verif/
sed -i "s#path = \"/repo\"#path = \"$L/repo\"#" $L/verif/harness/Cargo.toml $L/verif/harness/miri/Cargo.toml
mkdir -p $L/verif/evidence $L/verif/.work
cd $L/verif
export EVAL_REPO=$L/repo VERIF_REPO=$L/repo
python3 tools/eval_seeded.py detect /verif/seeded/$name "$@" | tail -1
git -C /repo worktree remove --force $L/repo; rm -rf $L
