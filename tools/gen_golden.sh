#!/bin/bash
# Regenerates /verif/golden from the reference release. NOT run by any check: the committed table is the frozen
# recording; this script only documents how it was produced (2026-10-01, seed 20260101).
set -e
REF=d731376
rm -rf /tmp/ref /tmp/gh
git -C /repo worktree add -f /tmp/ref $REF
mkdir -p /tmp/gh && rsync -a --exclude target /verif/harness/ /tmp/gh/
sed -i 's#a5 = { path = "/repo" }#a5 = { path = "/tmp/ref" }#; s#hooks = \["a5/verif"\]#hooks = []#; s#default = \["hooks"\]#default = []#' /tmp/gh/Cargo.toml
(cd /tmp/gh && cargo build --release --offline --bin golden_gen && ./target/release/golden_gen "${1:-/verif/golden}")
rm -rf /tmp/gh
git -C /repo worktree remove --force /tmp/ref
