#!/bin/bash
# tools/lane.sh <k>: an extra evaluation lane under /tmp/lane<k> (own worktree of /repo at HEAD, own copy of the machinery);
# evaluates seeded changes that have a confirmation but no detection yet, claiming each with a lock directory
k=$1; L=/tmp/lane$k
rm -rf $L; mkdir -p $L
git -C /repo worktree remove --force $L/repo 2>/dev/null
git -C /repo worktree add -f --detach $L/repo HEAD >/dev/null 2>&1
rsync -a --exclude target --exclude .work --exclude seeded --exclude .git --exclude evidence --exclude replays /verif/ $L/verif/
sed -i "s#path = \"/repo\"#path = \"$L/repo\"#" $L/verif/harness/Cargo.toml $L/verif/harness/miri/Cargo.toml
mkdir -p $L/verif/evidence $L/verif/.work
cd $L/verif
export EVAL_REPO=$L/repo VERIF_REPO=$L/repo
EXTRA=$(cat /verif/.work/reduced_ids 2>/dev/null || echo "C02 C06 C14")
for d in $(ls -d /verif/seeded/*/ | sort -r); do
  d=${d%/}
  [ -f "$d/detection.json" ] && continue
  grep -q '"confirmed": true' "$d/confirmation.json" 2>/dev/null || continue
  mkdir "$d/.claim" 2>/dev/null || continue
  name=$(basename $d); target=${name%-*}
  ids=$(echo $target $EXTRA | tr ' ' '\n' | awk '!s[$0]++' | tr '\n' ' ')
  echo "=== lane$k $name $(date +%H:%M:%S)"
  python3 tools/eval_seeded.py detect "$d" $ids | tail -1
  rmdir "$d/.claim"
done
echo "lane$k done $(date +%H:%M:%S)"
git -C /repo worktree remove --force $L/repo; rm -rf $L
