#!/bin/bash
# like eval_all.sh, but runs only the check of the property the change was aimed at plus the six checks that have caught most
# seeded changes of other properties (C01, C02, C06, C07, C13, C14); used for the late rounds to save time
exec 9>/verif/.work/eval_all.lock
flock -n 9 || { echo "another eval is running"; exit 0; }
cd /verif
while true; do
  next=""
  for d in seeded/*/; do
    d=${d%/}
    [ -f "$d/patch.diff" ] || continue
    [ -f "$d/detection.json" ] && continue
    next=$d; break
  done
  [ -z "$next" ] && break
  name=$(basename $next); target=${name%-*}
  echo "=== $next $(date +%H:%M:%S)"
  if [ ! -f "$next/confirmation.json" ]; then
    python3 tools/eval_seeded.py confirm "$next" | tail -1
  fi
  [ -f /verif/.work/reduced_ids ] && EXTRA=$(cat /verif/.work/reduced_ids) || EXTRA="C01 C02 C06 C07 C13 C14"
  if grep -q '"confirmed": true' "$next/confirmation.json"; then
    ids=$(echo $target $EXTRA | tr ' ' '\n' | awk '!s[$0]++' | tr '\n' ' ')
    python3 tools/eval_seeded.py detect "$next" $ids
  else
    echo '{"_not_confirmed": {"exit": -1, "fired": false}}' > "$next/detection.json"
    echo "NOT CONFIRMED: $next"
  fi
done
echo "eval_reduced done $(date +%H:%M:%S)"
