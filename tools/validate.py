#!/opt/veriftools/pyvenv/bin/python
import json, jsonschema, glob, sys
ok = True
try:
    jsonschema.validate(json.load(open('/verif/MANIFEST.json')), json.load(open('/root/.vp/MANIFEST.schema.json')))
    print('MANIFEST valid')
except Exception as e:
    ok = False; print('MANIFEST INVALID', str(e)[:500])
es = json.load(open('/root/.vp/EVIDENCE.schema.json'))
for f in sorted(glob.glob('/verif/evidence/*.json')):
    try:
        jsonschema.validate(json.load(open(f)), es)
    except Exception as e:
        ok = False; print(f, 'INVALID', str(e)[:500])
print('evidence files checked:', len(glob.glob('/verif/evidence/*.json')))
sys.exit(0 if ok else 1)
