#!/usr/bin/env python3
"""Rewrites DESIGN.md section 13 (between '## 13.' and '## 14.') from seeded/*/ : statistics, notes, table."""
import glob, json, os, subprocess

def key(d):
    a, b = os.path.basename(d.rstrip("/")).split("-")
    return (a, int(b))

dirs = sorted(glob.glob("/verif/seeded/C*/"), key=key)
tot = conf = any_ = tgt = 0
miss_target, miss_all, notconf = [], [], []
per_round = {}
for d in dirs:
    name = os.path.basename(d.rstrip("/"))
    meta = json.load(open(d + "meta.json"))
    c = json.load(open(d + "confirmation.json")) if os.path.exists(d + "confirmation.json") else {}
    det = json.load(open(d + "detection.json")) if os.path.exists(d + "detection.json") else {}
    tot += 1
    n = int(name.split("-")[1])
    rnd = (n + 1) // 2
    pr = per_round.setdefault(rnd, {"n": 0, "any": 0, "target": 0, "confirmed": 0})
    pr["n"] += 1
    if not c.get("confirmed"):
        notconf.append(name)
        continue
    conf += 1
    pr["confirmed"] += 1
    fired = [k for k, v in det.items() if v.get("fired")]
    if fired:
        any_ += 1
        pr["any"] += 1
    else:
        miss_all.append(name)
    if meta["property"] in fired:
        tgt += 1
        pr["target"] += 1
    else:
        miss_target.append(name)

table = subprocess.run(["python3", "/verif/tools/seeded_table.py"], stdout=subprocess.PIPE, text=True).stdout
notes = open("/verif/tools/sec13_notes.md").read() if os.path.exists("/verif/tools/sec13_notes.md") else ""
rounds = "; ".join(f"round {r}: {v['target']} / {v['confirmed']}" for r, v in sorted(per_round.items()))
text = f"""## 13. Seeded changes: which check catches which

{tot} changes to felixpalmer/a5-rs were produced by 200 fresh sub-agents (one per property and round, two changes each in rounds 1-7, up to two in rounds 8 to 10; ten
rounds). Each agent got only the text of one property (its line of `properties.jsonl`) and a scratch git worktree of /repo
under /tmp - nothing from /verif. Round 1 (CXX-1, CXX-2) asked for a change that breaks the property while still compiling
and passing the 150 existing tests, with a demonstration, and that needs something specific to manifest. Later rounds
additionally told the agent, in one paragraph each, what had already been produced for that property, and asked for changes
that are *harder* to notice; each round added guidance on kinds of slip not tried much so far (the full prompt of the last
rounds is `seeded/AGENT_PROMPT.txt`): round 3 build-profile differences, narrowing, ties, iteration order, lazies; round 4 at
least one stateless change per agent; round 5 smooth errors, compensating sites, order / length / multiplicity of list
arguments, single faces or orientations; round 6 the world cell and base cells, options, metadata and hex functions, the
exact limits of the domain, pairs of list elements, process-level first calls, Ok / Err flips; round 7 rarely executed branches, helpers shared by two
callers, implicit assumptions between modules, inputs combining two special conditions; rounds 8 to 10 see the notes below. Every change was confirmed by
me in a scratch worktree (`tools/eval_seeded.py confirm`: the patch applies, the crate builds with the hook feature, the 150
existing tests pass, the demonstration fails with the change and passes without it) and is kept as `seeded/<id>/` (patch.diff,
demo.rs, meta.json, confirmation.json, detection.json). No change was ever committed to /repo; checks were run against one by
`git apply` on /repo (or, for the late rounds, on extra worktrees of it: `tools/lane.sh`), with `git checkout -- .` straight
afterwards (`tools/eval_seeded.py detect`, evidence redirected to a scratch directory).

Columns: "all quick checks that fire" is from one sweep per change, done with the monitors as they were at the time: all 20
quick checks for rounds 1-4 (rounds 1 and 2 were swept before most of the hardening of 12b / 12c, so for them it is a lower
bound); for rounds 5 to 7 only the target check and three to six others, for rounds 8 to 10 the target check alone and, for the misses, two to five others (marked "[of n run]") to save time, so absence of a
check there means nothing. "Caught by its own property's check" is from the final monitors for rounds 5 to 10 and was re-run
for rounds 1-4 after the round-4 hardening (`tools/retarget.sh`).

**Result: {conf} of {tot} changes are confirmed; {any_} of those {conf} are caught by at least one quick check; {tgt} by the check of
the property they were aimed at** (by round - {rounds}).
{"Not confirmed: " + ", ".join(notconf) + "." if notconf else ""} {"Caught by no check that was run: " + ", ".join(miss_all) + "." if miss_all else ""}
Not caught by their own property's check: {", ".join(miss_target) if miss_target else "none"}.

{notes}
{table}
"""
p = "/verif/DESIGN.md"
s = open(p).read()
i = s.index("## 13. Seeded changes")
j = s.index("## 14. Evidence of reach")
open(p, "w").write(s[:i] + text + "\n" + s[j:])
print(f"total {tot} confirmed {conf} any {any_} target {tgt}; target misses {miss_target}; none {miss_all}; not confirmed {notconf}")
