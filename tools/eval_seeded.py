#!/usr/bin/env python3
"""Confirms a seeded change and runs the checks against it.

  tools/eval_seeded.py confirm <seeded-dir>          scratch worktree: existing tests pass with the change, the
                                                     demonstration fails with it and passes without it
  tools/eval_seeded.py detect <seeded-dir> [IDs...]  applies the change to /repo, runs the quick checks (all 20 by
                                                     default), restores /repo, writes <seeded-dir>/detection.json

Never commits anything to /repo; the scratch worktree lives under /tmp and is removed afterwards.
"""
import json
import os
import shutil
import subprocess
import sys
import time

ROOT = os.path.dirname(os.path.dirname(os.path.abspath(__file__)))
# lanes: a copy of /verif (check, harness with its Cargo path rewritten, golden, known_findings.json, tools) next to its own
# worktree of /repo can evaluate seeded changes in parallel with the main tree; EVAL_REPO names that worktree
REPO = os.environ.get("EVAL_REPO", "/repo")
ALL = ["C%02d" % i for i in range(1, 21)]
ENV = dict(os.environ, CARGO_NET_OFFLINE="true", CARGO_TERM_COLOR="never")
# checks run against a seeded change must not overwrite the evidence of the unchanged tree
SCRATCH = os.path.join(ROOT, ".work", "seeded-eval")
os.makedirs(os.path.join(SCRATCH, "evidence"), exist_ok=True)
os.makedirs(os.path.join(SCRATCH, "replays"), exist_ok=True)
ENV["VERIF_EVIDENCE_DIR"] = os.path.join(SCRATCH, "evidence")
ENV["VERIF_REPLAY_DIR"] = os.path.join(SCRATCH, "replays")


def sh(cmd, cwd=None, timeout=3600):
    p = subprocess.run(cmd, cwd=cwd, env=ENV, stdout=subprocess.PIPE, stderr=subprocess.STDOUT, text=True, timeout=timeout)
    return p.returncode, p.stdout


def count_tests(out):
    passed = failed = 0
    for line in out.splitlines():
        if line.startswith("test result:"):
            parts = line.replace(";", "").split()
            passed += int(parts[3])
            failed += int(parts[5])
    return passed, failed


def confirm(d):
    name = os.path.basename(os.path.normpath(d))
    wt = f"/tmp/confirm-{name}"
    sh(["git", "-C", "/repo", "worktree", "remove", "--force", wt])
    shutil.rmtree(wt, ignore_errors=True)
    rc, out = sh(["git", "-C", "/repo", "worktree", "add", "-f", wt, "HEAD"])
    result = {"worktree_of": sh(["git", "-C", "/repo", "rev-parse", "--short", "HEAD"])[1].strip()}
    try:
        shutil.copy(os.path.join(d, "demo.rs"), os.path.join(wt, "tests", "zz_demo.rs"))
        rc, out = sh(["cargo", "test", "--offline", "--test", "zz_demo"], cwd=wt)
        result["demo_passes_without_change"] = rc == 0
        rc, out = sh(["git", "apply", os.path.abspath(os.path.join(d, "patch.diff"))], cwd=wt)
        result["patch_applies"] = rc == 0
        if rc != 0:
            result["error"] = out[-500:]
            return result
        rc, out = sh(["cargo", "build", "--offline", "--features", "verif"], cwd=wt)
        result["builds_with_hooks"] = rc == 0
        rc, out = sh(["cargo", "test", "--workspace", "--no-fail-fast", "--offline"], cwd=wt)
        passed, failed = count_tests(out)
        # the demonstration is one extra test binary; everything else must be the 150 baseline tests, all passing
        rc2, out2 = sh(["cargo", "test", "--offline", "--test", "zz_demo"], cwd=wt)
        dp, df = count_tests(out2)
        result["demo_fails_with_change"] = rc2 != 0
        result["existing_tests_passed"] = passed - dp
        result["existing_tests_failed"] = failed - df
        result["existing_tests_pass"] = (failed - df) == 0 and (passed - dp) == 150
    finally:
        sh(["git", "-C", "/repo", "worktree", "remove", "--force", wt])
        shutil.rmtree(wt, ignore_errors=True)
        sh(["git", "-C", "/repo", "worktree", "prune"])
    result["confirmed"] = bool(result.get("demo_passes_without_change") and result.get("demo_fails_with_change") and result.get("existing_tests_pass") and result.get("builds_with_hooks"))
    return result


def detect(d, ids):
    rc, out = sh(["git", "-C", REPO, "status", "--porcelain", "--untracked-files=no"])
    if out.strip():
        print(f"{REPO} working tree is not clean", file=sys.stderr)
        sys.exit(2)
    rc, out = sh(["git", "-C", REPO, "apply", os.path.abspath(os.path.join(d, "patch.diff"))])
    if rc != 0:
        print("patch does not apply:", out, file=sys.stderr)
        sys.exit(2)
    results = {}
    try:
        for pid in ids:
            t0 = time.time()
            try:
                rc, out = sh([os.path.join(ROOT, "check"), pid, "quick"], cwd=ROOT, timeout=2400)
            except subprocess.TimeoutExpired:
                rc, out = 2, "INCONCLUSIVE timeout"
            lines = out.splitlines()
            first = next((lines[i + 1].strip() for i, l in enumerate(lines) if l.startswith("VIOLATION") and i + 1 < len(lines)), None)
            results[pid] = {"exit": rc, "fired": rc == 1, "seconds": round(time.time() - t0, 1), "violations": sum(1 for l in lines if l.startswith("VIOLATION")),
                            "first": first[:300] if first else None, "inconclusive": [l for l in lines if l.startswith("INCONCLUSIVE")][:3]}
            print(f"  {pid}: exit {rc}  {first[:140] if first else ''}", flush=True)
    finally:
        sh(["git", "-C", REPO, "checkout", "--", "."])
    return results


def main():
    mode, d = sys.argv[1], sys.argv[2]
    if mode == "confirm":
        r = confirm(d)
        with open(os.path.join(d, "confirmation.json"), "w") as f:
            json.dump(r, f, indent=1)
        print(json.dumps(r))
        sys.exit(0 if r.get("confirmed") else 1)
    if mode == "detect":
        ids = sys.argv[3:] or ALL
        r = detect(d, ids)
        path = os.path.join(d, "detection.json")
        old = {}
        if os.path.exists(path):
            with open(path) as f:
                old = json.load(f)
        old.update(r)
        with open(path, "w") as f:
            json.dump(old, f, indent=1)
        fired = [k for k, v in old.items() if v["fired"]]
        print("fired:", fired)


if __name__ == "__main__":
    main()
