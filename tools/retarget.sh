#!/bin/bash
# re-runs, with the current monitors, the check of the property each seeded change was aimed at (plus extra ids given per change)
exec 9>/verif/.work/eval_all.lock
flock -n 9 || { echo "another eval is running"; exit 0; }
cd /verif
for d in seeded/*/; do
  d=${d%/}; name=$(basename $d); target=${name%-*}
  extra=""
  [ "$name" = "C04-3" ] && extra="C16"
  echo "=== $name -> $target $extra"
  python3 tools/eval_seeded.py detect "$d" $target $extra | tail -3
done
echo "retarget done $(date +%H:%M:%S)"
