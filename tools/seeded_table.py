#!/usr/bin/env python3
"""Prints the markdown table of DESIGN.md section 13 from seeded/*/meta.json, confirmation.json and detection.json."""
import glob, json, os
rows = []
def key(d):
    name = os.path.basename(d.rstrip("/"))
    a, b = name.split("-")
    return (a, int(b))
for d in sorted(glob.glob("/verif/seeded/C*/"), key=key):
    name = os.path.basename(d.rstrip("/"))
    try:
        meta = json.load(open(d + "meta.json"))
    except Exception:
        continue
    conf = json.load(open(d + "confirmation.json")) if os.path.exists(d + "confirmation.json") else {}
    det = json.load(open(d + "detection.json")) if os.path.exists(d + "detection.json") else {}
    fired = [k for k, v in sorted(det.items()) if v.get("fired")]
    inconc = [k for k, v in sorted(det.items()) if v.get("exit") == 2]
    target = meta["property"]
    what = (meta.get("what_changed") or "").replace("\n", " ").replace("|", "/")
    if len(what) > 230:
        what = what[:227] + "..."
    hit = "yes" if target in fired else ("**NO**" if det else "?")
    ran = [k for k in det if k.startswith("C")]
    subset = f" [of {len(ran)} run]" if det and len(ran) < 20 else ""
    if "_not_confirmed" in det:
        hit, subset = "n/a", ""
    rows.append(f"| {name} | {what} | {'yes' if conf.get('confirmed') else 'no'} | {hit} | {', '.join(fired) or '-'}{(' (inconclusive: ' + ', '.join(inconc) + ')') if inconc else ''}{subset} |")
print("| change | what it does | confirmed | caught by its own property's check | all quick checks that fire |")
print("|---|---|---|---|---|")
print("\n".join(rows))
