#!/bin/bash
# Line coverage of /repo/src under the quick workloads of all monitors (not a check; evidence of reach, see DESIGN.md §14).
# usage: tools/coverage.sh [budget]     writes .work/coverage.txt
set -e
cd /verif/harness
BUDGET=${1:-0.2}
B=$(dirname $(ls ~/.rustup/toolchains/nightly-*/lib/rustlib/x86_64-unknown-linux-gnu/bin/llvm-profdata | head -1))
RUSTFLAGS="-Cinstrument-coverage" CARGO_NET_OFFLINE=true cargo +nightly build --release --offline --target-dir target/cov --bin a5mon --bin worker 2>&1 | tail -1
P=/verif/.work/prof; rm -rf $P; mkdir -p $P
export VERIF_ROOT=/verif
for p in C01 C02 C03 C04 C05 C06 C07 C08 C09 C10 C11 C12 C13 C15 C16 C17 C18 C19 C20; do
  LLVM_PROFILE_FILE=$P/$p-%p.profraw VERIF_BUDGET=$BUDGET ./target/cov/release/a5mon $p --tier quick --seed 1 --out $P/x.json 2>&1 | tail -1
done
LLVM_PROFILE_FILE=$P/C14-%p.profraw ./target/cov/release/worker run --seed 1 --from 0 --to 200000 --log $P/w.log
$B/llvm-profdata merge -sparse $P/*.profraw -o $P/all.profdata
$B/llvm-cov report ./target/cov/release/a5mon -object ./target/cov/release/worker -instr-profile=$P/all.profdata /repo/src 2>/dev/null \
  | awk 'NR>2 && NF>=13 {printf "%-45s lines %5s missed %5s  %s\n", $1, $8, $9, $10}' > /verif/.work/coverage.txt
for f in core/cell.rs core/serialization.rs core/compact.rs core/hilbert.rs core/origin.rs core/tiling.rs projections/dodecahedron.rs projections/polyhedral.rs projections/crs.rs utils/vector.rs core/coordinate_transforms.rs geometry/pentagon.rs; do
  echo "--- uncovered lines of $f" >> /verif/.work/coverage.txt
  $B/llvm-cov show ./target/cov/release/a5mon -object ./target/cov/release/worker -instr-profile=$P/all.profdata /repo/src/$f 2>/dev/null | grep -E "^ +[0-9]+\| +0\|" | cut -c1-140 >> /verif/.work/coverage.txt
done
rm -rf $P
cat /verif/.work/coverage.txt | head -40
