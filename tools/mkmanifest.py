#!/usr/bin/env python3
"""Regenerates MANIFEST.json from the table below (kept in one place so it is always valid)."""
import json, os
ROOT = os.path.dirname(os.path.dirname(os.path.abspath(__file__)))
HOOK_COMMITS = ["23b6688", "0e192d0"]
# id -> (technique, level text, level note, design ref)
CHECKS = {}
exec(open(os.path.join(ROOT, "tools", "checks_table.py")).read())
props = [json.loads(l)["id"] for l in open(os.path.join(ROOT, "properties.jsonl"))]
checks = []
na = []
for pid in props:
    if pid in CHECKS:
        c = CHECKS[pid]
        checks.append({
            "property_id": pid,
            "quick_cmd": f"./check {pid} quick",
            "thorough_cmd": f"./check {pid} thorough",
            "evidence_file": f"/verif/evidence/{pid}.json",
            "replay_cmd_template": f"./check {pid} --replay {{path}}",
            "engine": "a5mon",
            "level_claimed": {"category": c.get("category", "exploration"), "text": c["level"], "design_ref": c["design"]},
            "level_note": c["note"],
            "technique": c["technique"],
        })
    else:
        na.append({"property_id": pid, "reason": "check not built yet (work in progress; the design in DESIGN.md §6 applies runtime monitoring to it)"})
m = {
    "version": 1,
    "setup_cmd": "./check setup",
    "hooks": {
        "guard": "cargo feature `verif` of the a5 crate (off by default)",
        "enable": "the harness crate /verif/harness depends on a5 = { path = \"/repo\" } and turns the feature on through its own default feature `hooks` = [\"a5/verif\"]",
        "baseline_off_cmd": "cd /repo && cargo test --workspace --no-fail-fast --offline",
        "source_commits": HOOK_COMMITS,
        "add_only": True,
    },
    "engines": [
        {"name": "a5mon", "path": "/verif/harness", "serves_properties": sorted(CHECKS), "kind_free_text": "Rust harness linking /repo (rebuilt from the working tree by every check): seeded hostile workload generators, independent oracles / reference models, monitors observing real executions at the API boundary; python3 driver /verif/check (known-findings filter, evidence, replay, sandboxed children, Miri / TSan orchestration)"},
    ],
    "checks": checks,
    "notes": "Runtime monitoring only: every verdict is 'held on what was observed' (see evidence files for what that was). known_findings.json lists the defects of the pinned tree that were repaired by fix: commits in /repo.",
    "not_applicable": na,
}
json.dump(m, open(os.path.join(ROOT, "MANIFEST.json"), "w"), indent=1)
print("checks:", len(checks), "not_applicable:", len(na))
