#!/usr/bin/env python3
"""Copies a sub-agent's OUT directory (/tmp/mut/<ID>/OUT) into /verif/seeded/<ID>-<n>/ (patch.diff, demo.rs, meta.json)."""
import json, os, shutil, sys
pid = sys.argv[1]
base = sys.argv[2] if len(sys.argv) > 2 else "/tmp/mut"      # e.g. /tmp/mut2 for the second round
offset = int(sys.argv[3]) if len(sys.argv) > 3 else 0       # second round: 2 -> CXX-3, CXX-4
src = f"{base}/{pid}/OUT"
metas = json.load(open(os.path.join(src, "meta.json")))
if isinstance(metas, dict):
    metas = metas.get("changes") or [metas]
for i, m in enumerate(metas, 1):
    patch = m.get("patch", f"patch_{i}.diff")
    demo = m.get("demo", f"demo_{i}.rs")
    d = f"/verif/seeded/{pid}-{i + offset}"
    os.makedirs(d, exist_ok=True)
    shutil.copy(os.path.join(src, os.path.basename(patch)), os.path.join(d, "patch.diff"))
    shutil.copy(os.path.join(src, os.path.basename(demo)), os.path.join(d, "demo.rs"))
    meta = {"property": pid, "source": "independent sub-agent given only the property text and a scratch worktree" + (" (later round: also told which changes had been tried, asked for harder ones; see seeded/AGENT_PROMPT.txt)" if offset else ""),
            "what_changed": m.get("what_changed"), "needs_to_manifest": m.get("needs_to_manifest"), "agent_commands": m.get("commands_run")}
    json.dump(meta, open(os.path.join(d, "meta.json"), "w"), indent=1)
    print(d)
